import Pamqp.Spec.Defs
import Pamqp.Proofs.Bytes
import Pamqp.Proofs.Utf8
/-! # Round trip of field values: `Encode.tableValue` / `Decode.embedded` (C03) -/
namespace Pamqp.Proofs.RoundTrip
open Pamqp
set_option linter.unusedSimpArgs false

/-! ## untagged primitives -/

theorem unpackU_append (k : Nat) (a r : Bytes) (h : a.length = k) :
    unpackU k (a ++ r) = .ok (unbe a) := by
  simp only [unpackU, takeExact_append k a r h, bind, Except.bind, pure, Except.pure]

theorem slice_drop (bs : Bytes) (a b : Nat) : slice bs a b = (bs.drop a).take (b - a) := rfl

/-- signed integer of `k` bytes through `packInt` and `unpackS` -/
theorem packS_rt (k : Nat) (hk : 0 < k) (lo hi v : Int) (h1 : lo ≤ v) (h2 : v ≤ hi)
    (hlo : -((256 ^ k / 2 : Nat) : Int) ≤ lo) (hhi : hi < ((256 ^ k / 2 : Nat) : Int)) :
    ∃ bs, packInt k lo hi v = .ok bs ∧ bs.length = k ∧ ∀ r, unpackS k (bs ++ r) = .ok v := by
  refine ⟨_, packInt_of_range k lo hi v h1 h2, beN_length _ _, fun r => ?_⟩
  exact unpackS_beN k hk v (by omega) (by omega) r

/-- unsigned integer of `k` bytes through `packInt` and `unpackU` -/
theorem packU_rt (k : Nat) (hi v : Int) (h1 : 0 ≤ v) (h2 : v ≤ hi) (hhi : hi < ((256 ^ k : Nat) : Int)) :
    ∃ bs, packInt k 0 hi v = .ok bs ∧ bs.length = k ∧ ∀ r, unpackU k (bs ++ r) = .ok v.toNat := by
  have hv : v = (v.toNat : Int) := by omega
  refine ⟨beN k v.toNat, ?_, beN_length _ _, fun r => ?_⟩
  · have := packInt_nat k hi v.toNat (by omega) (by omega)
    rw [← hv] at this; exact this
  · exact unpackU_beN k v.toNat (by omega) r


/-! ## the property the mutual induction carries -/

/-- `v` is accepted, its encoding has the predicted (positive) size, and any decoder run with fuel at
least twice the encoding length reads it back, whatever follows -/
def Good (legacy : Bool) (v : PyVal) : Prop :=
  ∃ bs, Encode.tableValue legacy v = .ok bs ∧ bs.length = Spec.wireSize legacy v ∧ 0 < bs.length ∧
    ∀ f rest, 2 * bs.length ≤ f → Decode.embedded f (bs ++ rest) = .ok (bs.length, Spec.norm v)

theorem embedded_prim (t : UInt8) (dec : Bytes → R (Nat × PyVal)) (ht : Decode.tablePrim t = some dec)
    (h65 : t ≠ 65) (h70 : t ≠ 70) (f : Nat) (r : Bytes) (c : Nat) (v : PyVal) (hd : dec r = .ok (c, v)) :
    Decode.embedded (f + 1) (t :: r) = .ok (c + 1, v) := by
  simp only [Decode.embedded, h65, h70, if_false, ht, hd, bind, Except.bind, pure, Except.pure]

theorem good_of_prim (legacy : Bool) (v : PyVal) (t : UInt8) (body : Bytes) (dec : Bytes → R (Nat × PyVal))
    (henc : Encode.tableValue legacy v = .ok (t :: body)) (hsz : body.length + 1 = Spec.wireSize legacy v)
    (ht : Decode.tablePrim t = some dec) (h65 : t ≠ 65) (h70 : t ≠ 70)
    (hdec : ∀ rest, dec (body ++ rest) = .ok (body.length, Spec.norm v)) : Good legacy v := by
  refine ⟨t :: body, henc, by simpa using hsz, by simp, ?_⟩
  intro f rest hf
  cases f with
  | zero => simp at hf
  | succ f =>
    rw [List.cons_append, embedded_prim t dec ht h65 h70 f _ _ _ (hdec rest)]
    simp

theorem good_none (legacy : Bool) : Good legacy .none :=
  good_of_prim legacy .none 86 [] Decode.void (by simp [Encode.tableValue]) (by simp [Spec.wireSize])
    (by simp [Decode.tablePrim]) (by decide) (by decide) (fun rest => by simp [Decode.void, Spec.norm])

theorem good_bool (legacy : Bool) (b : Bool) : Good legacy (.bool b) :=
  good_of_prim legacy (.bool b) 116 [if b then 1 else 0] Decode.boolean (by simp [Encode.tableValue])
    (by simp [Spec.wireSize]) (by simp [Decode.tablePrim]) (by decide) (by decide)
    (fun rest => by cases b <;> simp [Decode.boolean, Spec.norm])


/-! ## integers -/

theorem guardedInt_int (lo hi : Int) (pack : Int → R Bytes) (i : Int) (h1 : lo ≤ i) (h2 : i ≤ hi) :
    Encode.guardedInt lo hi pack (.int i) = pack i := by
  simp [Encode.guardedInt, PyVal.asInt?, h1, h2]

theorem good_int_aux (legacy : Bool) (i : Int) (t : UInt8) (k : Nat) (bs : Bytes) (dec : Bytes → R (Nat × PyVal))
    (henc : Encode.tableInteger legacy i = .ok (t :: bs)) (hl : bs.length = k)
    (hsz : k = if legacy then Spec.intSizeLegacy i else Spec.intSize i)
    (ht : Decode.tablePrim t = some dec) (h65 : t ≠ 65) (h70 : t ≠ 70)
    (hdec : ∀ rest, dec (bs ++ rest) = .ok (k, .int i)) : Good legacy (.int i) := by
  refine good_of_prim legacy (.int i) t bs dec (by simpa [Encode.tableValue] using henc) ?_ ht h65 h70 ?_
  · simp only [Spec.wireSize, ← hsz, hl]; omega
  · intro rest; rw [hdec rest, hl]; simp [Spec.norm]

theorem good_int_std (i : Int) (h1 : -9223372036854775808 ≤ i) (h2 : i ≤ 9223372036854775807) :
    Good false (.int i) := by
  by_cases c1 : -128 ≤ i ∧ i ≤ 127
  · obtain ⟨bs, hp, hl, hd⟩ := packS_rt 1 (by omega) (-128) 127 i c1.1 c1.2 (by decide) (by decide)
    refine good_int_aux false i 98 1 bs Decode.shortShortInt ?_ hl ?_ (by simp [Decode.tablePrim])
      (by decide) (by decide) ?_
    · simp [Encode.tableInteger, c1, packI8, hp, Except.map]
    · simp [Spec.intSize, c1]
    · intro rest; simp only [Decode.shortShortInt, hd, bind, Except.bind, pure, Except.pure]
  by_cases c2 : -32768 ≤ i ∧ i ≤ 32767
  · obtain ⟨bs, hp, hl, hd⟩ := packS_rt 2 (by omega) (-32768) 32767 i c2.1 c2.2 (by decide) (by decide)
    refine good_int_aux false i 115 2 bs Decode.shortInt ?_ hl ?_ (by simp [Decode.tablePrim])
      (by decide) (by decide) ?_
    · simp only [Encode.tableInteger, c1, c2, Encode.shortInt, guardedInt_int _ _ _ i c2.1 c2.2,
        packI16, hp, Except.map, if_true, if_false]; simp
    · have : -32768 ≤ i ∧ i ≤ 65535 := by omega
      simp [Spec.intSize, c1, this]
    · intro rest; simp only [Decode.shortInt, hd, bind, Except.bind, pure, Except.pure]
  by_cases c3 : 0 ≤ i ∧ i ≤ 65535
  · obtain ⟨bs, hp, hl, hd⟩ := packU_rt 2 65535 i c3.1 c3.2 (by decide)
    refine good_int_aux false i 117 2 bs Decode.shortUint ?_ hl ?_ (by simp [Decode.tablePrim])
      (by decide) (by decide) ?_
    · simp only [Encode.tableInteger, c1, c2, c3, Encode.shortUint, guardedInt_int _ _ _ i c3.1 c3.2,
        packU16, hp, Except.map, if_true, if_false]; simp
    · have : -32768 ≤ i ∧ i ≤ 65535 := by omega
      simp [Spec.intSize, c1, this]
    · intro rest
      have : ((i.toNat : Nat) : Int) = i := by omega
      simp only [Decode.shortUint, hd, bind, Except.bind, pure, Except.pure, this]
  by_cases c4 : -2147483648 ≤ i ∧ i ≤ 2147483647
  · obtain ⟨bs, hp, hl, hd⟩ := packS_rt 4 (by omega) (-2147483648) 2147483647 i c4.1 c4.2 (by decide) (by decide)
    refine good_int_aux false i 73 4 bs Decode.longInt ?_ hl ?_ (by simp [Decode.tablePrim])
      (by decide) (by decide) ?_
    · simp only [Encode.tableInteger, c1, c2, c3, c4, Encode.longInt, guardedInt_int _ _ _ i c4.1 c4.2,
        packI32, hp, Except.map, if_true, if_false]; simp
    · have h1 : ¬ (-32768 ≤ i ∧ i ≤ 65535) := by omega
      have h2 : -2147483648 ≤ i ∧ i ≤ 4294967295 := by omega
      simp [Spec.intSize, c1, h1, h2]
    · intro rest; simp only [Decode.longInt, hd, bind, Except.bind, pure, Except.pure]
  by_cases c5 : 0 ≤ i ∧ i ≤ 4294967295
  · obtain ⟨bs, hp, hl, hd⟩ := packU_rt 4 4294967295 i c5.1 c5.2 (by decide)
    refine good_int_aux false i 105 4 bs Decode.longUint ?_ hl ?_ (by simp [Decode.tablePrim])
      (by decide) (by decide) ?_
    · have c3' : ¬ i ≤ 65535 := by omega
      simp only [Encode.tableInteger, c1, c2, c3, c3', c4, c5, Encode.longUint, guardedInt_int _ _ _ i c5.1 c5.2,
        packU32, hp, Except.map, if_true, if_false]; simp
    · have h1 : ¬ (-32768 ≤ i ∧ i ≤ 65535) := by omega
      have h2 : -2147483648 ≤ i ∧ i ≤ 4294967295 := by omega
      simp [Spec.intSize, c1, h1, h2]
    · intro rest
      have : ((i.toNat : Nat) : Int) = i := by omega
      simp only [Decode.longUint, hd, bind, Except.bind, pure, Except.pure, this]
  · obtain ⟨bs, hp, hl, hd⟩ := packS_rt 8 (by omega) (-9223372036854775808) 9223372036854775807 i h1 h2
      (by decide) (by decide)
    have c6 : -9223372036854775808 ≤ i ∧ i ≤ 9223372036854775807 := ⟨h1, h2⟩
    refine good_int_aux false i 108 8 bs Decode.longLongInt ?_ hl ?_ (by simp [Decode.tablePrim])
      (by decide) (by decide) ?_
    · simp only [Encode.tableInteger, c1, c2, c3, c4, c5, c6, Encode.longLongInt, guardedInt_int _ _ _ i h1 h2,
        packI64, hp, Except.map, if_true, if_false]; simp
    · have h1 : ¬ (-32768 ≤ i ∧ i ≤ 65535) := by omega
      have h2 : ¬ (-2147483648 ≤ i ∧ i ≤ 4294967295) := by omega
      simp [Spec.intSize, c1, h1, h2]
    · intro rest; simp only [Decode.longLongInt, hd, bind, Except.bind, pure, Except.pure]


theorem good_int_legacy (i : Int) (h1 : -9223372036854775808 ≤ i) (h2 : i ≤ 9223372036854775807) :
    Good true (.int i) := by
  by_cases c1 : -128 ≤ i ∧ i ≤ 127
  · obtain ⟨bs, hp, hl, hd⟩ := packS_rt 1 (by omega) (-128) 127 i c1.1 c1.2 (by decide) (by decide)
    refine good_int_aux true i 98 1 bs Decode.shortShortInt ?_ hl ?_ (by simp [Decode.tablePrim])
      (by decide) (by decide) ?_
    · simp [Encode.tableInteger, c1, packI8, hp, Except.map]
    · simp [Spec.intSizeLegacy, c1]
    · intro rest; simp only [Decode.shortShortInt, hd, bind, Except.bind, pure, Except.pure]
  by_cases c2 : -32768 ≤ i ∧ i ≤ 32767
  · obtain ⟨bs, hp, hl, hd⟩ := packS_rt 2 (by omega) (-32768) 32767 i c2.1 c2.2 (by decide) (by decide)
    refine good_int_aux true i 115 2 bs Decode.shortInt ?_ hl ?_ (by simp [Decode.tablePrim])
      (by decide) (by decide) ?_
    · simp only [Encode.tableInteger, c1, c2, Encode.shortInt, guardedInt_int _ _ _ i c2.1 c2.2,
        packI16, hp, Except.map, if_true, if_false]; simp
    · simp [Spec.intSizeLegacy, c1, c2]
    · intro rest; simp only [Decode.shortInt, hd, bind, Except.bind, pure, Except.pure]
  by_cases c4 : -2147483648 ≤ i ∧ i ≤ 2147483647
  · obtain ⟨bs, hp, hl, hd⟩ := packS_rt 4 (by omega) (-2147483648) 2147483647 i c4.1 c4.2 (by decide) (by decide)
    refine good_int_aux true i 73 4 bs Decode.longInt ?_ hl ?_ (by simp [Decode.tablePrim])
      (by decide) (by decide) ?_
    · simp only [Encode.tableInteger, c1, c2, c4, Encode.longInt, guardedInt_int _ _ _ i c4.1 c4.2,
        packI32, hp, Except.map, if_true, if_false]; simp
    · simp [Spec.intSizeLegacy, c1, c2, c4]
    · intro rest; simp only [Decode.longInt, hd, bind, Except.bind, pure, Except.pure]
  · obtain ⟨bs, hp, hl, hd⟩ := packS_rt 8 (by omega) (-9223372036854775808) 9223372036854775807 i h1 h2
      (by decide) (by decide)
    have c6 : -9223372036854775808 ≤ i ∧ i ≤ 9223372036854775807 := ⟨h1, h2⟩
    refine good_int_aux true i 108 8 bs Decode.longLongInt ?_ hl ?_ (by simp [Decode.tablePrim])
      (by decide) (by decide) ?_
    · simp only [Encode.tableInteger, c1, c2, c4, c6, Encode.longLongInt, guardedInt_int _ _ _ i h1 h2,
        packI64, hp, Except.map, if_true, if_false]; simp
    · simp [Spec.intSizeLegacy, c1, c2, c4]
    · intro rest; simp only [Decode.longLongInt, hd, bind, Except.bind, pure, Except.pure]

theorem good_int (legacy : Bool) (i : Int) (h1 : -9223372036854775808 ≤ i) (h2 : i ≤ 9223372036854775807) :
    Good legacy (.int i) := by
  cases legacy
  · exact good_int_std i h1 h2
  · exact good_int_legacy i h1 h2

/-! ## strings, byte arrays -/

theorem slice_prefix (a b r : Bytes) (n : Nat) (ha : a.length = n) :
    slice (a ++ (b ++ r)) n (b.length + n) = b := by
  subst ha
  simp [slice]

/-- `_string` with a length prefix of `k` bytes -/
theorem string_rt (k : Nat) (s : Str) (h1 : (utf8Encode s).isSome) (h2 : Spec.utf8Len s < 256 ^ k) :
    ∃ sb, utf8Encode s = some sb ∧ sb.length = Spec.utf8Len s ∧
      Encode.string k (.str s) = .ok (beN k sb.length ++ sb) ∧
      ∀ rest, unpackU k (beN k sb.length ++ sb ++ rest) = .ok sb.length ∧
        slice (beN k sb.length ++ sb ++ rest) k (sb.length + k) = sb ∧ utf8Decode sb = some s := by
  cases hs : utf8Encode s with
  | none => simp [hs] at h1
  | some sb =>
    have hl := utf8Encode_length s sb hs
    have hlt : sb.length < 256 ^ k := by omega
    refine ⟨sb, rfl, hl, ?_, fun rest => ⟨?_, ?_, utf8Decode_encode s sb hs⟩⟩
    · have hp := packInt_nat k (((256 ^ k : Nat) : Int) - 1) sb.length (by omega) hlt
      simp only [Encode.string, hs, hp, bind, Except.bind, pure, Except.pure]
    · rw [List.append_assoc]; exact unpackU_beN k _ hlt _
    · rw [List.append_assoc]; exact slice_prefix _ _ _ _ (beN_length _ _)

theorem longString_rt (s : Str) (h1 : (utf8Encode s).isSome) (h2 : Spec.utf8Len s < 2 ^ 32) :
    ∃ e, Encode.longString (.str s) = .ok e ∧ e.length = 4 + Spec.utf8Len s ∧
      ∀ rest, Decode.longStr (e ++ rest) = .ok (e.length, .str s) := by
  obtain ⟨sb, _, hl, he, hd⟩ := string_rt 4 s h1 (by simpa using h2)
  refine ⟨_, he, by simp [hl], fun rest => ?_⟩
  obtain ⟨d1, d2, d3⟩ := hd rest
  simp only [Decode.longStr, d1, d2, d3, bind, Except.bind, pure, Except.pure]
  simp; omega

theorem shortString_rt (s : Str) (h1 : (utf8Encode s).isSome) (h2 : Spec.utf8Len s ≤ 255) :
    ∃ e, Encode.shortString (.str s) = .ok e ∧ e.length = 1 + Spec.utf8Len s ∧
      ∀ rest, Decode.shortStr (e ++ rest) = .ok (e.length, .str s) := by
  obtain ⟨sb, _, hl, he, hd⟩ := string_rt 1 s h1 (by simp; omega)
  refine ⟨_, he, by simp [hl], fun rest => ?_⟩
  obtain ⟨d1, d2, d3⟩ := hd rest
  simp only [Decode.shortStr, d1, d2, d3, bind, Except.bind, pure, Except.pure]
  simp; omega

theorem good_str (legacy : Bool) (s : Str) (h1 : (utf8Encode s).isSome) (h2 : Spec.utf8Len s < 2 ^ 32) :
    Good legacy (.str s) := by
  obtain ⟨e, he, hl, hd⟩ := longString_rt s h1 h2
  refine good_of_prim legacy (.str s) 83 e Decode.longStr ?_ ?_ (by simp [Decode.tablePrim])
    (by decide) (by decide) ?_
  · simp [Encode.tableValue, he, Except.map]
  · simp [Spec.wireSize, hl]; omega
  · intro rest; rw [hd rest]; simp [Spec.norm]

theorem good_bytearray (legacy : Bool) (b : Bytes) (h : b.length < 2 ^ 32) : Good legacy (.bytearray b) := by
  have hp : packU32 (b.length : Int) = .ok (beN 4 b.length) :=
    packInt_nat 4 4294967295 b.length (by omega) (by simpa using h)
  refine good_of_prim legacy (.bytearray b) 120 (beN 4 b.length ++ b) Decode.byteArray ?_ ?_
    (by simp [Decode.tablePrim]) (by decide) (by decide) ?_
  · simp [Encode.tableValue, Encode.byteArray, hp, Except.map, bind, Except.bind, pure, Except.pure]
  · simp [Spec.wireSize]; omega
  · intro rest
    have d1 : unpackU 4 (beN 4 b.length ++ b ++ rest) = .ok b.length := by
      rw [List.append_assoc]; exact unpackU_beN 4 _ (by simpa using h) _
    have d2 : slice (beN 4 b.length ++ b ++ rest) 4 (b.length + 4) = b := by
      rw [List.append_assoc]; exact slice_prefix _ _ _ _ (beN_length _ _)
    simp only [Decode.byteArray, d1, d2, bind, Except.bind, pure, Except.pure]
    simp [Spec.norm]; omega


/-! ## timestamps -/

theorem timestamp_secs_rt (secs : Int) (h0 : 0 ≤ secs) (h1 : secs ≤ 4294967295) :
    ∃ e, packU64 secs = .ok e ∧ e.length = 8 ∧
      ∀ rest, Decode.timestamp (e ++ rest) = .ok (8, .datetime (secs * 1000000) (some 0)) := by
  obtain ⟨bs, hp, hl, hd⟩ := packU_rt 8 18446744073709551615 secs h0 (by omega) (by decide)
  refine ⟨bs, hp, hl, fun rest => ?_⟩
  have h2 : ¬ (secs.toNat > 0xFFFFFFFF) := by omega
  have h3 : ((secs.toNat : Nat) : Int) = secs := by omega
  simp only [Decode.timestamp, hd, bind, Except.bind, pure, Except.pure, h2, if_false, h3]

theorem tdiv_small (a : Int) (h : -1000000 < a) (h2 : a < 0) : Int.tdiv a 1000000 = 0 := by
  rw [Int.tdiv_eq_ediv]
  have hs : Int.sign 1000000 = 1 := by decide
  rw [hs]
  have hnd : ¬ ((1000000:Int) ∣ a) := by omega
  have : ¬ (0 ≤ a ∨ (1000000:Int) ∣ a) := by
    intro h; rcases h with h | h
    · omega
    · exact hnd h
  rw [if_neg this]; omega

/-- truncation toward zero is nonnegative exactly from -1 s (exclusive) on -/
theorem tdiv_nonneg_iff (a : Int) : 0 ≤ Int.tdiv a 1000000 ↔ -1000000 < a := by
  by_cases h0 : 0 ≤ a
  · rw [Int.tdiv_eq_ediv_of_nonneg h0]; omega
  · by_cases h1 : -1000000 < a
    · rw [tdiv_small a h1 (by omega)]; omega
    · rw [Int.tdiv_eq_ediv]
      have hs : Int.sign 1000000 = 1 := by decide
      rw [hs]
      split <;> omega

theorem tdiv_le_ediv_bound (a : Int) (h : -1000000 < a) (h1 : a / 1000000 ≤ 4294967295) :
    Int.tdiv a 1000000 ≤ 4294967295 := by
  by_cases h0 : 0 ≤ a
  · rw [Int.tdiv_eq_ediv_of_nonneg h0]; omega
  · rw [tdiv_small a h (by omega)]; omega

theorem timestamp_rt (legacy : Bool) (v : PyVal)
    (hv : (∃ m tz, v = .datetime m tz) ∨ (∃ s, v = .structTime s)) (h : Spec.Encodable legacy v) :
    ∃ e, Encode.timestamp v = .ok e ∧ e.length = 8 ∧
      ∀ rest, Decode.timestamp (e ++ rest) = .ok (8, Spec.norm v) := by
  rcases hv with ⟨m, tz, rfl⟩ | ⟨s, rfl⟩
  · have ⟨h0, h1⟩ : -1000000 < Spec.instantMicros m tz ∧ Spec.instantMicros m tz / 1000000 ≤ 4294967295 := by
      simpa [Spec.Encodable] using h
    have h00 : 0 ≤ Int.tdiv (Spec.instantMicros m tz) 1000000 := (tdiv_nonneg_iff _).mpr h0
    obtain ⟨e, hp, hl, hd⟩ := timestamp_secs_rt _ h00 (tdiv_le_ediv_bound _ h0 h1)
    refine ⟨e, ?_, hl, fun rest => by rw [hd rest]; simp [Spec.norm]⟩
    have : Encode.timestamp (.datetime m tz) = packU64 (Int.tdiv (Spec.instantMicros m tz) 1000000) := by
      cases tz <;> simp [Encode.timestamp, Spec.instantMicros]
    rw [this, hp]
  · have ⟨h0, h1⟩ : 0 ≤ s ∧ s ≤ 4294967295 := by simpa [Spec.Encodable] using h
    obtain ⟨e, hp, hl, hd⟩ := timestamp_secs_rt s h0 h1
    exact ⟨e, by simpa [Encode.timestamp] using hp, hl, fun rest => by rw [hd rest]; simp [Spec.norm]⟩

theorem good_timestamp (legacy : Bool) (v : PyVal)
    (hv : (∃ m tz, v = .datetime m tz) ∨ (∃ s, v = .structTime s)) (h : Spec.Encodable legacy v) :
    Good legacy v := by
  obtain ⟨e, he, hl, hd⟩ := timestamp_rt legacy v hv h
  refine good_of_prim legacy v 84 e Decode.timestamp ?_ ?_ (by simp [Decode.tablePrim])
    (by decide) (by decide) (fun rest => by rw [hd rest, hl])
  · rcases hv with ⟨m, tz, rfl⟩ | ⟨s, rfl⟩ <;> simp [Encode.tableValue, he, Except.map]
  · rcases hv with ⟨m, tz, rfl⟩ | ⟨s, rfl⟩ <;> simp [Spec.wireSize, hl]


/-! ## floats -/

theorem f32Narrow_lt (bits b : Nat) (h : f32Narrow bits = some b) : b < 2 ^ 32 := by
  unfold f32Narrow at h
  extract_lets s e f m shift q0 r half q base res at h
  have hs : s < 2 := Nat.mod_lt _ (by decide)
  have hf : f < 2 ^ 52 := Nat.mod_lt _ (by decide)
  split at h
  · split at h
    · cases h; omega
    · cases h
      have hf : f / 2 ^ 29 < 2 ^ 23 := by omega
      have := Nat.or_lt_two_pow (x := 0x400000) (n := 23) (by decide) hf
      omega
  · split at h
    · cases h; omega
    · split at h
      · cases h
      · cases h; omega

theorem good_float (legacy : Bool) (bits : Nat) (h : (f32Narrow bits).isSome) : Good legacy (.float bits) := by
  cases hn : f32Narrow bits with
  | none => simp [hn] at h
  | some b =>
    have hb : b < 256 ^ 4 := by simpa using f32Narrow_lt bits b hn
    refine good_of_prim legacy (.float bits) 102 (beN 4 b) Decode.floatingPoint ?_ ?_
      (by simp [Decode.tablePrim]) (by decide) (by decide) ?_
    · simp [Encode.tableValue, Encode.floatingPoint, hn, Except.map]
    · simp [Spec.wireSize]
    · intro rest
      simp only [Decode.floatingPoint, takeExact_append 4 _ rest (beN_length 4 b), unbe_beN_of_lt 4 b hb,
        bind, Except.bind, pure, Except.pure, Spec.norm, hn, Option.getD_some, beN_length]

/-! ## decimals -/

theorem decimal_body (scale : Int) (hs0 : 0 ≤ scale) (hs1 : scale ≤ 255) (neg : Bool) (mag : Nat)
    (hmag : if neg then mag ≤ 2147483648 else mag ≤ 2147483647) :
    ∃ a b, packU8 scale = .ok a ∧ packI32 (if neg then -(mag : Int) else (mag : Int)) = .ok b ∧
      (a ++ b).length = 5 ∧
      ∀ rest, Decode.decimal (a ++ b ++ rest) = .ok (5, .decimal (neg && mag != 0) mag (-scale)) := by
  obtain ⟨a, ha, hal, had⟩ := packU_rt 1 255 scale hs0 hs1 (by decide)
  have hr : -2147483648 ≤ (if neg then -(mag : Int) else (mag : Int)) ∧
      (if neg then -(mag : Int) else (mag : Int)) ≤ 2147483647 := by
    cases neg <;> simp at hmag ⊢ <;> omega
  obtain ⟨b, hb, hbl, hbd⟩ := packS_rt 4 (by omega) (-2147483648) 2147483647 _ hr.1 hr.2 (by decide) (by decide)
  refine ⟨a, b, ha, hb, by simp [hal, hbl], fun rest => ?_⟩
  have d1 : unpackU 1 (a ++ b ++ rest) = .ok scale.toNat := by rw [List.append_assoc]; exact had _
  have d2 : (a ++ b ++ rest).drop 1 = b ++ rest := by
    rw [List.append_assoc, ← hal]; simp
  simp only [Decode.decimal, d1, d2, hbd, bind, Except.bind, pure, Except.pure]
  have e1 : ((scale.toNat : Nat) : Int) = scale := by omega
  rw [e1]
  cases neg
  · simp
  · by_cases hz : mag = 0
    · subst hz; simp
    · have h1 : -(mag : Int) < 0 := by omega
      have h2 : (mag != 0) = true := by simpa using hz
      have h3 : 0 < mag := by omega
      simp [h1, h2, h3]

theorem pow10_big (n : Nat) (h : 10 < n) : 10 ^ 11 ≤ 10 ^ n :=
  Nat.pow_le_pow_right (by decide) h

theorem good_decimal (legacy : Bool) (n : Bool) (c : Nat) (e : Int) (h : Spec.decimalOK n c e) :
    Good legacy (.decimal n c e) := by
  unfold Spec.decimalOK at h
  by_cases he : e < 0
  · simp only [he, if_true] at h
    obtain ⟨a, b, ha, hb, hl, hd⟩ := decimal_body (-e) (by omega) h.1 n c h.2
    have he2 : ¬ e < -2000054 := by omega
    refine good_of_prim legacy (.decimal n c e) 68 (a ++ b) Decode.decimal ?_ ?_
      (by simp [Decode.tablePrim]) (by decide) (by decide) ?_
    · simp only [Encode.tableValue, Encode.decimal, he, he2, if_true, if_false, ha, hb, bind, Except.bind, pure,
        Except.pure, Except.map]
    · simp [Spec.wireSize, hl]
    · intro rest; rw [hd rest, hl]; simp [Spec.norm, Spec.normDecimal, he]
  · simp only [he, if_false] at h
    have hmag : Encode.decimalInt n c e.toNat =
        (if n then -((c * 10 ^ e.toNat : Nat) : Int) else ((c * 10 ^ e.toNat : Nat) : Int)) := by
      unfold Encode.decimalInt
      by_cases hc : c = 0
      · subst hc; simp
      · by_cases hbig : e.toNat > 10
        · exfalso
          have h1 := pow10_big _ hbig
          have h2 : 1 * 10 ^ 11 ≤ c * 10 ^ e.toNat := Nat.mul_le_mul (by omega) h1
          have h3 : c * 10 ^ e.toNat ≤ 2147483648 := by cases n <;> simp at h <;> omega
          have : (10 : Nat) ^ 11 = 100000000000 := by decide
          omega
        · simp [hc, hbig]
    obtain ⟨a, b, ha, hb, hl, hd⟩ := decimal_body 0 (by omega) (by omega) n (c * 10 ^ e.toNat) h
    have ha0 : a = [0] := by
      have : packU8 0 = .ok [0] := by rfl
      rw [this] at ha; cases ha; rfl
    subst ha0
    refine good_of_prim legacy (.decimal n c e) 68 ([0] ++ b) Decode.decimal ?_ ?_
      (by simp [Decode.tablePrim]) (by decide) (by decide) ?_
    · simp only [Encode.tableValue, Encode.decimal, he, if_false, hmag, hb, bind, Except.bind, pure,
        Except.pure, Except.map, List.cons_append, List.nil_append]
    · simp [Spec.wireSize] at hl ⊢; omega
    · intro rest; rw [hd rest, hl]
      have hp : 0 < 10 ^ e.toNat := Nat.pow_pos (by decide)
      by_cases hc : c = 0
      · subst hc; simp [Spec.norm, Spec.normDecimal, he]
      · have h0 : c * 10 ^ e.toNat ≠ 0 := Nat.mul_ne_zero hc (by omega)
        have h1 : (c * 10 ^ e.toNat != 0) = true := by simpa using h0
        have h2 : (c != 0) = true := by simpa using hc
        simp [Spec.norm, Spec.normDecimal, he, h1, h2]


/-! ## arrays -/

theorem withLen_ok (body : Bytes) (h : body.length < 2 ^ 32) :
    Encode.withLen body = .ok (beN 4 body.length ++ body) := by
  have hp : packU32 (body.length : Int) = .ok (beN 4 body.length) :=
    packInt_nat 4 4294967295 body.length (by omega) (by simpa using h)
  simp only [Encode.withLen, hp, bind, Except.bind, pure, Except.pure]

theorem drop_add_of_drop {value : Bytes} {offset : Nat} {a r : Bytes} (h : value.drop offset = a ++ r) :
    value.drop (offset + a.length) = r := by
  rw [← List.drop_drop, h]; simp

theorem arrLoop_step (f : Nat) (value : Bytes) (fin offset : Nat) (acc : List PyVal) (c : Nat) (v : PyVal)
    (hlt : offset < fin) (hc : c ≠ 0) (hemb : Decode.embedded f (value.drop offset) = .ok (c, v)) :
    Decode.arrLoop (f + 1) value fin offset acc = Decode.arrLoop f value fin (offset + c) (acc ++ [v]) := by
  rw [Decode.arrLoop]
  simp only [hlt, if_true, hemb, bind, Except.bind, hc, if_false]

theorem arrLoop_done (f : Nat) (value : Bytes) (fin offset : Nat) (acc : List PyVal) (h : ¬ offset < fin) :
    Decode.arrLoop (f + 1) value fin offset acc = .ok (offset, .list acc) := by
  rw [Decode.arrLoop]; simp only [h, if_false]

theorem arrLoop_rt (legacy : Bool) (vs : List PyVal) (hg : ∀ v ∈ vs, Good legacy v) :
    ∃ body, Encode.items legacy vs = .ok body ∧ body.length = Spec.wireSizeList legacy vs ∧
      ∀ f value offset acc rest, value.drop offset = body ++ rest → 2 * body.length + 1 ≤ f →
        Decode.arrLoop f value (offset + body.length) offset acc =
          .ok (offset + body.length, .list (acc ++ Spec.normList vs)) := by
  induction vs with
  | nil =>
    refine ⟨[], by simp [Encode.items], by simp [Spec.wireSizeList], ?_⟩
    intro f value offset acc rest _ hf
    cases f with
    | zero => omega
    | succ f => rw [arrLoop_done _ _ _ _ _ (by simp)]; simp [Spec.normList]
  | cons v vs ih =>
    obtain ⟨a, ha, hal, hapos, had⟩ := hg v (by simp)
    obtain ⟨b, hb, hbl, hbd⟩ := ih (fun x hx => hg x (by simp [hx]))
    refine ⟨a ++ b, ?_, by simp [Spec.wireSizeList, hal, hbl], ?_⟩
    · simp only [Encode.items, ha, hb, bind, Except.bind, pure, Except.pure]
    intro f value offset acc rest hdrop hf
    cases f with
    | zero => omega
    | succ f =>
      rw [List.append_assoc] at hdrop
      simp only [List.length_append] at hf ⊢
      have e1 : Decode.embedded f (value.drop offset) = .ok (a.length, Spec.norm v) := by
        rw [hdrop]; exact had f _ (by omega)
      rw [arrLoop_step f value _ offset acc a.length (Spec.norm v) (by omega) (by omega) e1]
      have e2 := hbd f value (offset + a.length) (acc ++ [Spec.norm v]) rest (drop_add_of_drop hdrop) (by omega)
      rw [show offset + (a.length + b.length) = offset + a.length + b.length by omega, e2]
      simp [Spec.normList]

theorem fieldArray_rt (legacy : Bool) (vs : List PyVal) (hg : ∀ v ∈ vs, Good legacy v)
    (hsz : Spec.wireSizeList legacy vs < 2 ^ 32) :
    ∃ e, Encode.fieldArray legacy (.list vs) = .ok e ∧ e.length = 4 + Spec.wireSizeList legacy vs ∧
      ∀ f rest, 2 * e.length ≤ f + 6 →
        Decode.fieldArray f (e ++ rest) = .ok (e.length, .list (Spec.normList vs)) := by
  obtain ⟨body, hb, hbl, hbd⟩ := arrLoop_rt legacy vs hg
  have hw := withLen_ok body (by omega)
  refine ⟨beN 4 body.length ++ body, ?_, by simp [hbl], ?_⟩
  · simp only [Encode.fieldArray, hb, hw, bind, Except.bind]
  intro f rest hf
  simp only [List.length_append, beN_length] at hf ⊢
  cases f with
  | zero => omega
  | succ f =>
    have d1 : unpackU 4 (beN 4 body.length ++ body ++ rest) = .ok body.length := by
      rw [List.append_assoc]; exact unpackU_beN 4 _ (by simp; omega) _
    have d2 : (beN 4 body.length ++ body ++ rest).drop 4 = body ++ rest := by
      rw [List.append_assoc]; exact drop_beN_append 4 _ _
    have := hbd f _ 4 [] rest d2 (by omega)
    rw [Decode.fieldArray]
    simp only [d1, bind, Except.bind, this, List.nil_append]

theorem good_list (legacy : Bool) (vs : List PyVal) (hg : ∀ v ∈ vs, Good legacy v)
    (hsz : Spec.wireSizeList legacy vs < 2 ^ 32) : Good legacy (.list vs) := by
  obtain ⟨e, he, hl, hd⟩ := fieldArray_rt legacy vs hg hsz
  have he' : ∃ body, Encode.items legacy vs = .ok body ∧ Encode.withLen body = .ok e := by
    simp only [Encode.fieldArray, bind, Except.bind] at he
    cases hi : Encode.items legacy vs with
    | error x => simp [hi] at he
    | ok body => exact ⟨body, rfl, by simpa [hi] using he⟩
  obtain ⟨body, hb, hw⟩ := he'
  refine ⟨65 :: e, ?_, by simp [Spec.wireSize, hl]; omega, by simp, ?_⟩
  · simp only [Encode.tableValue, hb, hw, bind, Except.bind, pure, Except.pure]
  intro f rest hf
  simp only [List.length_cons] at hf ⊢
  cases f with
  | zero => omega
  | succ f =>
    rw [List.cons_append, Decode.embedded]
    simp only [if_true, hd f rest (by omega), bind, Except.bind, pure, Except.pure, Spec.norm]


/-! ## tables -/

theorem key_rt (k : Str) (h : Spec.keyOK k) :
    ∃ kb, Encode.shortString (.str (k.take 128)) = .ok (UInt8.ofNat kb.length :: kb) ∧
      kb.length = Spec.utf8Len k ∧ (UInt8.ofNat kb.length).toNat = kb.length ∧ utf8Decode kb = some k := by
  obtain ⟨h1, h2, h3⟩ := h
  obtain ⟨sb, hs, hl, he, _⟩ := string_rt 1 k h2 (by simp; omega)
  have htake : k.take 128 = k := List.take_of_length_le h1
  have hmod : sb.length % 256 = sb.length := Nat.mod_eq_of_lt (by omega)
  refine ⟨sb, ?_, hl, ?_, utf8Decode_encode k sb hs⟩
  · rw [htake, Encode.shortString, he]; simp [beN, hmod]
  · simp only [UInt8.toNat_ofNat', Nat.reducePow]; omega

theorem dictSet_new (acc : List (Str × PyVal)) (k : Str) (v : PyVal) (h : k ∉ acc.map (·.1)) :
    Decode.dictSet acc k v = acc ++ [(k, v)] := by
  have : acc.any (·.1 == k) = false := by
    rw [Bool.eq_false_iff]
    intro hany
    rw [List.any_eq_true] at hany
    obtain ⟨e, he, hk⟩ := hany
    exact h (List.mem_map.mpr ⟨e, he, by simpa using hk⟩)
  simp [Decode.dictSet, this]

theorem tblLoop_step (f : Nat) (value : Bytes) (fin offset : Nat) (acc : List (Str × PyVal))
    (kl : UInt8) (kb tail : Bytes) (key : Str) (c : Nat) (v : PyVal)
    (hlt : offset < fin) (hdrop : value.drop offset = kl :: (kb ++ tail)) (hkl : kl.toNat = kb.length)
    (hkey : utf8Decode kb = some key) (hemb : Decode.embedded f tail = .ok (c, v)) :
    Decode.tblLoop (f + 1) value fin offset acc =
      Decode.tblLoop f value fin (offset + 1 + kb.length + c) (Decode.dictSet acc key v) := by
  have hd1 : value.drop (offset + 1) = kb ++ tail := by
    rw [← List.drop_drop, hdrop]; rfl
  have hs : slice value (offset + 1) (offset + 1 + kl.toNat) = kb := by
    rw [slice, hd1, hkl, Nat.add_sub_cancel_left]; simp
  have hd2 : value.drop (offset + 1 + kl.toNat) = tail := by
    rw [hkl]; exact drop_add_of_drop hd1
  rw [hkl] at hs hd2
  rw [Decode.tblLoop]
  simp only [hlt, if_true, hdrop, hkl, hs, hkey, hd2, hemb, bind, Except.bind]

theorem tblLoop_done (f : Nat) (value : Bytes) (fin offset : Nat) (acc : List (Str × PyVal))
    (h : ¬ offset < fin) : Decode.tblLoop (f + 1) value fin offset acc = .ok (offset, .dict acc) := by
  rw [Decode.tblLoop]; simp only [h, if_false]

theorem tblLoop_rt (legacy : Bool) (s : List (Str × PyVal))
    (hg : ∀ e ∈ s, Spec.keyOK e.1 ∧ Good legacy e.2) :
    ∃ body, Encode.joinEntries (Encode.entries legacy s) = .ok body ∧
      body.length = Spec.wireSizeEntries legacy s ∧
      ∀ f value offset acc rest, value.drop offset = body ++ rest → 2 * body.length + 1 ≤ f →
        (acc.map (·.1) ++ s.map (·.1)).Nodup →
        Decode.tblLoop f value (offset + body.length) offset acc =
          .ok (offset + body.length, .dict (acc ++ Spec.normEntries s)) := by
  induction s with
  | nil =>
    refine ⟨[], by simp [Encode.entries, Encode.joinEntries], by simp [Spec.wireSizeEntries], ?_⟩
    intro f value offset acc rest _ hf _
    cases f with
    | zero => omega
    | succ f => rw [tblLoop_done _ _ _ _ _ (by simp)]; simp [Spec.normEntries]
  | cons e s ih =>
    obtain ⟨k, v⟩ := e
    obtain ⟨hk, a, ha, hal, hapos, had⟩ := hg (k, v) (by simp)
    obtain ⟨kb, hkb, hkl, hkn, hkd⟩ := key_rt k hk
    obtain ⟨b, hb, hbl, hbd⟩ := ih (fun x hx => hg x (by simp [hx]))
    refine ⟨(UInt8.ofNat kb.length :: kb) ++ a ++ b, ?_, ?_, ?_⟩
    · simp only [Encode.entries, Encode.joinEntries, Encode.entryBytes, hkb, ha, hb, bind, Except.bind, pure,
        Except.pure]
    · simp [Spec.wireSizeEntries, hal, hbl, hkl]; omega
    intro f value offset acc rest hdrop hf hnd
    cases f with
    | zero => omega
    | succ f =>
      have hdrop' : value.drop offset = UInt8.ofNat kb.length :: (kb ++ (a ++ (b ++ rest))) := by
        rw [hdrop]; simp
      simp only [List.length_append, List.length_cons] at hf ⊢
      have e1 : Decode.embedded f (a ++ (b ++ rest)) = .ok (a.length, Spec.norm v) := had f _ (by omega)
      rw [tblLoop_step f value _ offset acc _ kb _ k a.length (Spec.norm v) (by omega) hdrop' hkn hkd e1]
      have hknew : k ∉ acc.map (·.1) := by
        intro hmem
        have := (List.nodup_append.mp hnd).2.2 k hmem k (by simp)
        exact this rfl
      rw [dictSet_new acc k _ hknew]
      have hdrop2 : value.drop (offset + 1 + kb.length + a.length) = b ++ rest := by
        have h1 : value.drop (offset + 1) = kb ++ (a ++ (b ++ rest)) := by
          rw [← List.drop_drop, hdrop']; rfl
        exact drop_add_of_drop (drop_add_of_drop h1)
      have hnd' : ((acc ++ [(k, Spec.norm v)]).map (·.1) ++ s.map (·.1)).Nodup := by
        simpa using hnd
      have e2 := hbd f value (offset + 1 + kb.length + a.length) (acc ++ [(k, Spec.norm v)]) rest hdrop2
        (by omega) hnd'
      rw [show offset + (kb.length + 1 + a.length + b.length) = offset + 1 + kb.length + a.length + b.length by omega,
        e2]
      simp [Spec.normEntries]


/-! ## sorting commutes with encoding / normalising the values -/

/-- the order `sorted(value.items())` uses, on the unencoded entries -/
def kvLe (a b : Str × PyVal) : Bool := strLe a.1 b.1

theorem entries_eq_map (legacy : Bool) (kvs : List (Str × PyVal)) :
    Encode.entries legacy kvs = kvs.map (fun e => (e.1, Encode.tableValue legacy e.2)) := by
  induction kvs with
  | nil => simp [Encode.entries]
  | cons e es ih => obtain ⟨k, v⟩ := e; simp [Encode.entries, ih]

theorem normEntries_eq_map (kvs : List (Str × PyVal)) :
    Spec.normEntries kvs = kvs.map (fun e => (e.1, Spec.norm e.2)) := by
  induction kvs with
  | nil => simp [Spec.normEntries]
  | cons e es ih => obtain ⟨k, v⟩ := e; simp [Spec.normEntries, ih]

theorem wireSizeEntries_eq_sum (legacy : Bool) (kvs : List (Str × PyVal)) :
    Spec.wireSizeEntries legacy kvs =
      (kvs.map (fun e => 1 + Spec.utf8Len e.1 + Spec.wireSize legacy e.2)).sum := by
  induction kvs with
  | nil => simp [Spec.wireSizeEntries]
  | cons e es ih => obtain ⟨k, v⟩ := e; simp [Spec.wireSizeEntries, ih]

theorem sort_entries (legacy : Bool) (kvs : List (Str × PyVal)) :
    List.mergeSort (Encode.entries legacy kvs) Encode.entryLe =
      Encode.entries legacy (List.mergeSort kvs kvLe) := by
  rw [entries_eq_map, entries_eq_map]
  exact (List.map_mergeSort (r := kvLe) (s := Encode.entryLe)
    (f := fun e => (e.1, Encode.tableValue legacy e.2)) (fun a _ b _ => rfl)).symm

theorem sort_normEntries (kvs : List (Str × PyVal)) :
    List.mergeSort (Spec.normEntries kvs) (fun a b => strLe a.1 b.1) =
      Spec.normEntries (List.mergeSort kvs kvLe) := by
  rw [normEntries_eq_map, normEntries_eq_map]
  exact (List.map_mergeSort (r := kvLe) (s := fun a b => strLe a.1 b.1)
    (f := fun e => (e.1, Spec.norm e.2)) (fun a _ b _ => rfl)).symm

theorem wireSizeEntries_sort (legacy : Bool) (kvs : List (Str × PyVal)) :
    Spec.wireSizeEntries legacy (List.mergeSort kvs kvLe) = Spec.wireSizeEntries legacy kvs := by
  rw [wireSizeEntries_eq_sum, wireSizeEntries_eq_sum]
  exact ((List.mergeSort_perm kvs kvLe).map _).sum_nat

/-- `encode.field_table` / `decode.field_table` on a dict whose values are all `Good` -/
theorem fieldTable_rt (legacy : Bool) (kvs : List (Str × PyVal))
    (hg : ∀ e ∈ kvs, Spec.keyOK e.1 ∧ Good legacy e.2) (hnd : (kvs.map (·.1)).Nodup)
    (hsz : Spec.wireSizeEntries legacy kvs < 2 ^ 32) :
    ∃ body, Encode.joinEntries (List.mergeSort (Encode.entries legacy kvs) Encode.entryLe) = .ok body ∧
      Encode.withLen body = .ok (beN 4 body.length ++ body) ∧
      body.length = Spec.wireSizeEntries legacy kvs ∧
      ∀ f rest, 2 * body.length + 2 ≤ f →
        Decode.fieldTable f (beN 4 body.length ++ body ++ rest) =
          .ok (4 + body.length, Spec.norm (.dict kvs)) := by
  have hperm := List.mergeSort_perm kvs kvLe
  have hg' : ∀ e ∈ List.mergeSort kvs kvLe, Spec.keyOK e.1 ∧ Good legacy e.2 :=
    fun e he => hg e (hperm.mem_iff.mp he)
  have hnd' : ((List.mergeSort kvs kvLe).map (·.1)).Nodup := (hperm.map _).symm.nodup hnd
  obtain ⟨body, hb, hbl, hbd⟩ := tblLoop_rt legacy _ hg'
  rw [wireSizeEntries_sort] at hbl
  refine ⟨body, by rw [sort_entries]; exact hb, withLen_ok body (by omega), hbl, ?_⟩
  intro f rest hf
  cases f with
  | zero => omega
  | succ f =>
    have d1 : unpackU 4 (beN 4 body.length ++ body ++ rest) = .ok body.length := by
      rw [List.append_assoc]; exact unpackU_beN 4 _ (by simp; omega) _
    have d2 : (beN 4 body.length ++ body ++ rest).drop 4 = body ++ rest := by
      rw [List.append_assoc]; exact drop_beN_append 4 _ _
    have := hbd f _ 4 [] rest d2 (by omega) (by simpa using hnd')
    rw [Decode.fieldTable]
    simp only [d1, bind, Except.bind, this, List.nil_append, Spec.norm, sort_normEntries]

theorem good_dict (legacy : Bool) (kvs : List (Str × PyVal))
    (hg : ∀ e ∈ kvs, Spec.keyOK e.1 ∧ Good legacy e.2) (hnd : (kvs.map (·.1)).Nodup)
    (hsz : Spec.wireSizeEntries legacy kvs < 2 ^ 32) : Good legacy (.dict kvs) := by
  obtain ⟨body, hb, hw, hbl, hd⟩ := fieldTable_rt legacy kvs hg hnd hsz
  refine ⟨70 :: (beN 4 body.length ++ body), ?_, by simp [Spec.wireSize, hbl]; omega, by simp, ?_⟩
  · simp only [Encode.tableValue, hb, hw, bind, Except.bind, pure, Except.pure]
  intro f rest hf
  simp only [List.length_cons, List.length_append, beN_length] at hf ⊢
  cases f with
  | zero => omega
  | succ f =>
    rw [List.cons_append, Decode.embedded]
    have h65 : ¬ ((70 : UInt8) = 65) := by decide
    simp only [h65, if_true, if_false, hd f rest (by omega), bind, Except.bind, pure, Except.pure]

/-! ## the induction over the nested value -/

mutual
theorem good_of_encodable (legacy : Bool) (v : PyVal) (h : Spec.Encodable legacy v) : Good legacy v := by
  match v, h with
  | .none, _ => exact good_none legacy
  | .bool b, _ => exact good_bool legacy b
  | .int i, h =>
    have h' : -9223372036854775808 ≤ i ∧ i ≤ 9223372036854775807 := by simpa [Spec.Encodable] using h
    exact good_int legacy i h'.1 h'.2
  | .float bits, h =>
    have h' : (f32Narrow bits).isSome := by simpa [Spec.Encodable] using h
    exact good_float legacy bits h'
  | .decimal n c e, h =>
    have h' : Spec.decimalOK n c e := by simpa [Spec.Encodable] using h
    exact good_decimal legacy n c e h'
  | .str s, h =>
    have h' : (utf8Encode s).isSome ∧ Spec.utf8Len s < 2 ^ 32 := by simpa [Spec.Encodable] using h
    exact good_str legacy s h'.1 h'.2
  | .bytearray b, h =>
    have h' : b.length < 2 ^ 32 := by simpa [Spec.Encodable] using h
    exact good_bytearray legacy b h'
  | .datetime m tz, h => exact good_timestamp legacy _ (Or.inl ⟨m, tz, rfl⟩) h
  | .structTime s, h => exact good_timestamp legacy _ (Or.inr ⟨s, rfl⟩) h
  | .list vs, h =>
    have h' : Spec.EncodableList legacy vs ∧ Spec.wireSizeList legacy vs < 2 ^ 32 := by
      simpa [Spec.Encodable] using h
    exact good_list legacy vs (good_of_encodableList legacy vs h'.1) h'.2
  | .dict kvs, h =>
    have h' : Spec.EncodableEntries legacy kvs ∧ (kvs.map (·.1)).Nodup ∧
        Spec.wireSizeEntries legacy kvs < 2 ^ 32 := by
      simpa [Spec.Encodable] using h
    exact good_dict legacy kvs (good_of_encodableEntries legacy kvs h'.1) h'.2.1 h'.2.2
  | .decimalSpecial _, h => exact absurd h (by simp [Spec.Encodable])
  | .bytes _, h => exact absurd h (by simp [Spec.Encodable])
  | .other, h => exact absurd h (by simp [Spec.Encodable])
theorem good_of_encodableList (legacy : Bool) (vs : List PyVal) (h : Spec.EncodableList legacy vs) :
    ∀ v ∈ vs, Good legacy v := by
  match vs, h with
  | [], _ => intro v hv; cases hv
  | x :: xs, h =>
    have h' : Spec.Encodable legacy x ∧ Spec.EncodableList legacy xs := by simpa [Spec.EncodableList] using h
    intro v hv
    rcases List.mem_cons.mp hv with hv' | hv'
    · rw [hv']; exact good_of_encodable legacy x h'.1
    · exact good_of_encodableList legacy xs h'.2 v hv'
theorem good_of_encodableEntries (legacy : Bool) (kvs : List (Str × PyVal))
    (h : Spec.EncodableEntries legacy kvs) : ∀ e ∈ kvs, Spec.keyOK e.1 ∧ Good legacy e.2 := by
  match kvs, h with
  | [], _ => intro e he; cases he
  | (k, x) :: es, h =>
    have h' : Spec.keyOK k ∧ Spec.Encodable legacy x ∧ Spec.EncodableEntries legacy es := by
      simpa [Spec.EncodableEntries] using h
    intro e he
    rcases List.mem_cons.mp he with he' | he'
    · rw [he']; exact ⟨h'.1, good_of_encodable legacy x h'.2.1⟩
    · exact good_of_encodableEntries legacy es h'.2.2 e he'
end


/-! ## the C03 statements -/

theorem value_roundtrip (legacy : Bool) (v : PyVal) (h : Spec.Encodable legacy v) (rest : Bytes) :
    ∃ bs, Encode.tableValue legacy v = .ok bs ∧ bs.length = Spec.wireSize legacy v ∧
      Decode.embeddedValue (bs ++ rest) = .ok (bs.length, Spec.norm v) := by
  obtain ⟨bs, he, hl, _, hd⟩ := good_of_encodable legacy v h
  refine ⟨bs, he, hl, ?_⟩
  exact hd _ rest (by simp [Decode.fuelFor]; omega)

theorem table_roundtrip (legacy : Bool) (kvs : List (Str × PyVal))
    (h : Spec.Encodable legacy (.dict kvs)) (rest : Bytes) :
    ∃ bs, Encode.fieldTable legacy (.dict kvs) = .ok bs ∧
      bs.length = 4 + Spec.wireSizeEntries legacy kvs ∧
      Decode.fieldTableTop (bs ++ rest) = .ok (bs.length, Spec.norm (.dict kvs)) := by
  have h' : Spec.EncodableEntries legacy kvs ∧ (kvs.map (·.1)).Nodup ∧
      Spec.wireSizeEntries legacy kvs < 2 ^ 32 := by
    simpa [Spec.Encodable] using h
  obtain ⟨body, hb, hw, hbl, hd⟩ :=
    fieldTable_rt legacy kvs (good_of_encodableEntries legacy kvs h'.1) h'.2.1 h'.2.2
  refine ⟨beN 4 body.length ++ body, ?_, by simp [hbl], ?_⟩
  · simp only [Encode.fieldTable, hb, hw, bind, Except.bind]
  · have := hd (Decode.fuelFor (beN 4 body.length ++ body ++ rest)) rest
      (by simp [Decode.fuelFor]; omega)
    simp only [Decode.fieldTableTop, this, List.length_append, beN_length]

theorem array_roundtrip (legacy : Bool) (vs : List PyVal)
    (h : Spec.Encodable legacy (.list vs)) (rest : Bytes) :
    ∃ bs, Encode.fieldArray legacy (.list vs) = .ok bs ∧
      Decode.fieldArrayTop (bs ++ rest) = .ok (bs.length, Spec.norm (.list vs)) := by
  have h' : Spec.EncodableList legacy vs ∧ Spec.wireSizeList legacy vs < 2 ^ 32 := by
    simpa [Spec.Encodable] using h
  obtain ⟨e, he, _, hd⟩ := fieldArray_rt legacy vs (good_of_encodableList legacy vs h'.1) h'.2
  refine ⟨e, he, ?_⟩
  have := hd (Decode.fuelFor (e ++ rest)) rest (by simp [Decode.fuelFor]; omega)
  simp only [Decode.fieldArrayTop, this, Spec.norm]

theorem normEntries_keys (kvs : List (Str × PyVal)) : (Spec.normEntries kvs).map (·.1) = kvs.map (·.1) := by
  rw [normEntries_eq_map]; simp

theorem keys_preserved (kvs : List (Str × PyVal)) :
    ∃ kvs', Spec.norm (.dict kvs) = .dict kvs' ∧ (kvs'.map (·.1)).Perm (kvs.map (·.1)) := by
  refine ⟨List.mergeSort (Spec.normEntries kvs) (fun a b => strLe a.1 b.1), by simp only [Spec.norm], ?_⟩
  rw [← normEntries_keys kvs]
  exact (List.mergeSort_perm _ _).map _

theorem decimal_value (n : Bool) (c : Nat) (e : Int) :
    ∃ n' c' e', Spec.norm (.decimal n c e) = .decimal n' c' e' ∧
      (if e < 0 then c' = c ∧ e' = e else c' = c * 10 ^ e.toNat ∧ e' = 0) ∧ (n' = (n && c != 0)) := by
  by_cases he : e < 0
  · exact ⟨(n && c != 0), c, e, by simp only [Spec.norm, Spec.normDecimal, he, if_true], by simp [he], rfl⟩
  · exact ⟨(n && c != 0), c * 10 ^ e.toNat, 0, by simp only [Spec.norm, Spec.normDecimal, he, if_false],
      by simp [he], rfl⟩

end Pamqp.Proofs.RoundTrip
