import Pamqp.Model.Api
import Pamqp.Proofs.Validate
/-! # `Cls(v1, ..., vn)` (C13, construction clause): the constructor is `validate()` on the stored values -/
namespace Pamqp.Proofs.Ctor
open Pamqp

/-- the attribute values the constructor stores -/
abbrev stored (spec : MethodSpec) (given : List PyVal) : List PyVal :=
  (spec.args.zip given).map (fun p => Api.normGiven p.1 p.2)

theorem constructWith_of_ok (spec : MethodSpec) (given : List PyVal)
    (h : Base.validate spec.slots (stored spec given) spec.rules = .ok ()) :
    Api.constructWith spec given = .ok (stored spec given) := by
  unfold Api.constructWith
  cases spec.ctorValidates
  · rfl
  · simp only [if_true, bind, Except.bind, pure, Except.pure]
    rw [h]

theorem constructWith_of_err (spec : MethodSpec) (hv : spec.ctorValidates = true)
    (given : List PyVal) (e : PyErr)
    (h : Base.validate spec.slots (stored spec given) spec.rules = .error e) :
    Api.constructWith spec given = .error e := by
  unfold Api.constructWith
  simp only [hv, if_true, bind, Except.bind]
  rw [h]

/-- generic form: whatever characterises ValueError of `validate` on the stored values
characterises ValueError of the constructor -/
theorem constructWith_iff (spec : MethodSpec) (hv : spec.ctorValidates = true) (given : List PyVal)
    (B : Prop)
    (hval : (Base.validate spec.slots (stored spec given) spec.rules = .error .valueError ↔ B) ∧
      (Base.validate spec.slots (stored spec given) spec.rules = .ok () ∨
        Base.validate spec.slots (stored spec given) spec.rules = .error .valueError)) :
    (Api.constructWith spec given = .error .valueError ↔ B) ∧
    (Api.constructWith spec given = .error .valueError ∨
      Api.constructWith spec given = .ok (stored spec given)) := by
  obtain ⟨hiff, hor⟩ := hval
  rcases hor with hok | herr
  · have hc := constructWith_of_ok spec given hok
    rw [hc]
    refine ⟨⟨fun h => (by cases h), fun hb => ?_⟩, Or.inr rfl⟩
    have := hiff.2 hb
    rw [hok] at this
    exact absurd this Validate.ok_ne_err
  · have hc := constructWith_of_err spec hv given _ herr
    rw [hc]
    exact ⟨⟨fun _ => hiff.1 herr, fun _ => rfl⟩, Or.inl rfl⟩

theorem constructWith_no_rules (spec : MethodSpec) (h : spec.rules = []) (given : List PyVal) :
    Api.constructWith spec given = .ok (stored spec given) := by
  apply constructWith_of_ok
  rw [h]
  rfl

end Pamqp.Proofs.Ctor
