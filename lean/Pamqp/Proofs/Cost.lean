import Pamqp.Model.DecodeCost
import Pamqp.Proofs.Budget
/-!
# Cost: the step-counting decoder `DecodeCost.*` computes the model's result, and its step count
is linear in the input length (C08, main clause)
-/
namespace Pamqp.Proofs
open Pamqp

/-! ## same result -/

theorem bindC_fst (x : DecodeCost.RC) (k : Nat × PyVal → DecodeCost.RC) :
    (DecodeCost.bindC x k).1 = x.1 >>= fun a => (k a).1 := by
  obtain ⟨r, n⟩ := x
  cases r with
  | error e => rfl
  | ok a => rfl

theorem cost_same_result (f : Nat) :
    (∀ bs, (DecodeCost.embedded f bs).1 = Decode.embedded f bs) ∧
    (∀ value, (DecodeCost.fieldArray f value).1 = Decode.fieldArray f value) ∧
    (∀ value fin offset acc, (DecodeCost.arrLoop f value fin offset acc).1 =
        Decode.arrLoop f value fin offset acc) ∧
    (∀ value, (DecodeCost.fieldTable f value).1 = Decode.fieldTable f value) ∧
    (∀ value fin offset acc, (DecodeCost.tblLoop f value fin offset acc).1 =
        Decode.tblLoop f value fin offset acc) := by
  induction f with
  | zero =>
    refine ⟨?_, ?_, ?_, ?_, ?_⟩
    · intro bs; simp only [DecodeCost.embedded, Decode.embedded]
    · intro value; simp only [DecodeCost.fieldArray, Decode.fieldArray]
    · intro value fin offset acc; simp only [DecodeCost.arrLoop, Decode.arrLoop]
    · intro value; simp only [DecodeCost.fieldTable, Decode.fieldTable]
    · intro value fin offset acc; simp only [DecodeCost.tblLoop, Decode.tblLoop]
  | succ f ih =>
    obtain ⟨ihE, ihA, ihAL, ihT, ihTL⟩ := ih
    refine ⟨?_, ?_, ?_, ?_, ?_⟩
    · intro bs
      cases bs with
      | nil => simp only [DecodeCost.embedded, Decode.embedded]
      | cons t r =>
        simp only [DecodeCost.embedded, Decode.embedded]
        split
        · rw [bindC_fst, ihA]; rfl
        · split
          · rw [bindC_fst, ihT]; rfl
          · cases hp : Decode.tablePrim t with
            | none => rfl
            | some dec =>
              simp only
              cases hd : dec r with
              | error e => rfl
              | ok p => obtain ⟨c, v⟩ := p; rfl
    · intro value
      simp only [DecodeCost.fieldArray, Decode.fieldArray]
      cases hu : unpackU 4 value with
      | error e => rfl
      | ok len =>
        simp only [bindC_fst, ihAL, bind, Except.bind]
        cases Decode.arrLoop f value (4 + len) 4 [] <;> rfl
    · intro value fin offset acc
      simp only [DecodeCost.arrLoop, Decode.arrLoop]
      split
      · rw [bindC_fst, ihE]
        cases hx : Decode.embedded f (value.drop offset) with
        | error e => rfl
        | ok p =>
          obtain ⟨c, v⟩ := p
          simp only [bind, Except.bind]
          split
          · rfl
          · rw [bindC_fst, ihAL]
            cases Decode.arrLoop f value fin (offset + c) (acc ++ [v]) <;> rfl
      · rfl
    · intro value
      simp only [DecodeCost.fieldTable, Decode.fieldTable]
      cases hu : unpackU 4 value with
      | error e => rfl
      | ok len =>
        simp only [bindC_fst, ihTL, bind, Except.bind]
        cases Decode.tblLoop f value (4 + len) 4 [] <;> rfl
    · intro value fin offset acc
      simp only [DecodeCost.tblLoop, Decode.tblLoop]
      split
      · cases hd : value.drop offset with
        | nil => rfl
        | cons kl rest =>
          simp only
          cases hk : utf8Decode (slice value (offset + 1) (offset + 1 + kl.toNat)) with
          | none => rfl
          | some key =>
            simp only
            rw [bindC_fst, ihE]
            cases hx : Decode.embedded f (value.drop (offset + 1 + kl.toNat)) with
            | error e => rfl
            | ok p =>
              obtain ⟨c, v⟩ := p
              simp only [bind, Except.bind]
              rw [bindC_fst, ihTL]
              cases Decode.tblLoop f value fin (offset + 1 + kl.toNat + c) (Decode.dictSet acc key v) <;> rfl
      · rfl

/-! ## the step count -/

/-- bound for `embedded` on `len` bytes: a successful call that consumed `c > 0` took at most
`2 * min c len - 1` steps (`min`: the consumed count may exceed the bytes present), the empty
input takes one step, and a failing call took at most `2 * len + 2` steps -/
def EmbB (len : Nat) (x : DecodeCost.RC) : Prop :=
  match x with
  | (.ok (c, _), n) => n + 1 ≤ 2 * min c len ∨ (c = 0 ∧ n = 1)
  | (.error _, n) => n ≤ 2 * len + 2

/-- bound for `fieldArray` / `fieldTable` on `len` bytes -/
def ArrB (len : Nat) (x : DecodeCost.RC) : Prop :=
  match x with
  | (.ok (c, _), n) => n ≤ 2 * min c len
  | (.error _, n) => n ≤ 2 * len + 2

/-- bound for the loops at `offset` of `len` bytes: the steps are paid for by the bytes between
`offset` and the offset reached -/
def LoopB (len offset : Nat) (x : DecodeCost.RC) : Prop :=
  match x with
  | (.ok (c, _), n) => n + 2 * min offset len ≤ 2 * min c len + 1
  | (.error _, n) => n ≤ 2 * (len - offset) + 2

theorem cost_invariant (f : Nat) :
    (∀ bs, EmbB bs.length (DecodeCost.embedded f bs)) ∧
    (∀ value, ArrB value.length (DecodeCost.fieldArray f value)) ∧
    (∀ value fin offset acc, LoopB value.length offset (DecodeCost.arrLoop f value fin offset acc)) ∧
    (∀ value, ArrB value.length (DecodeCost.fieldTable f value)) ∧
    (∀ value fin offset acc, LoopB value.length offset (DecodeCost.tblLoop f value fin offset acc)) := by
  induction f with
  | zero =>
    refine ⟨?_, ?_, ?_, ?_, ?_⟩
    · intro bs; simp only [DecodeCost.embedded, EmbB]; omega
    · intro value; simp only [DecodeCost.fieldArray, ArrB]; omega
    · intro value fin offset acc; simp only [DecodeCost.arrLoop, LoopB]; omega
    · intro value; simp only [DecodeCost.fieldTable, ArrB]; omega
    · intro value fin offset acc; simp only [DecodeCost.tblLoop, LoopB]; omega
  | succ f ih =>
    obtain ⟨ihE, ihA, ihAL, ihT, ihTL⟩ := ih
    refine ⟨?_, ?_, ?_, ?_, ?_⟩
    · intro bs
      cases bs with
      | nil => simp only [DecodeCost.embedded, EmbB]; exact Or.inr ⟨trivial, trivial⟩
      | cons t r =>
        simp only [DecodeCost.embedded]
        split
        · have h := ihA r
          cases hx : DecodeCost.fieldArray f r with
          | mk res n =>
            rw [hx] at h
            cases res with
            | error e => simp only [DecodeCost.bindC, EmbB, ArrB, List.length_cons] at h ⊢; omega
            | ok p =>
              obtain ⟨c, v⟩ := p
              simp only [DecodeCost.bindC, EmbB, ArrB, List.length_cons] at h ⊢; omega
        · split
          · have h := ihT r
            cases hx : DecodeCost.fieldTable f r with
            | mk res n =>
              rw [hx] at h
              cases res with
              | error e => simp only [DecodeCost.bindC, EmbB, ArrB, List.length_cons] at h ⊢; omega
              | ok p =>
                obtain ⟨c, v⟩ := p
                simp only [DecodeCost.bindC, EmbB, ArrB, List.length_cons] at h ⊢; omega
          · cases hp : Decode.tablePrim t with
            | none => simp only [EmbB]; omega
            | some dec =>
              simp only
              cases hd : dec r with
              | error e => simp only [EmbB]; omega
              | ok p =>
                obtain ⟨c, v⟩ := p
                simp only [EmbB, List.length_cons]; omega
    · intro value
      simp only [DecodeCost.fieldArray]
      cases hu : unpackU 4 value with
      | error e => simp only [ArrB]; omega
      | ok len =>
        have h4 := (unpackU_ok hu).1
        simp only
        have h := ihAL value (4 + len) 4 []
        cases hx : DecodeCost.arrLoop f value (4 + len) 4 [] with
        | mk res n =>
          rw [hx] at h
          cases res with
          | error e => simp only [DecodeCost.bindC, ArrB, LoopB] at h ⊢; omega
          | ok p =>
            obtain ⟨c, v⟩ := p
            simp only [DecodeCost.bindC, ArrB, LoopB] at h ⊢; omega
    · intro value fin offset acc
      simp only [DecodeCost.arrLoop]
      split
      · have h := ihE (value.drop offset)
        cases hx : DecodeCost.embedded f (value.drop offset) with
        | mk res n =>
          rw [hx] at h
          cases res with
          | error e => simp only [DecodeCost.bindC, EmbB, LoopB, List.length_drop] at h ⊢; omega
          | ok p =>
            obtain ⟨c, v⟩ := p
            simp only [DecodeCost.bindC]
            split
            · simp only [EmbB, LoopB, List.length_drop] at h ⊢; omega
            · have h2 := ihAL value fin (offset + c) (acc ++ [v])
              cases hy : DecodeCost.arrLoop f value fin (offset + c) (acc ++ [v]) with
              | mk res2 n2 =>
                rw [hy] at h2
                cases res2 with
                | error e => simp only [EmbB, LoopB, List.length_drop] at h h2 ⊢; omega
                | ok p2 =>
                  obtain ⟨c2, v2⟩ := p2
                  simp only [EmbB, LoopB, List.length_drop] at h h2 ⊢; omega
      · simp only [LoopB]; omega
    · intro value
      simp only [DecodeCost.fieldTable]
      cases hu : unpackU 4 value with
      | error e => simp only [ArrB]; omega
      | ok len =>
        have h4 := (unpackU_ok hu).1
        simp only
        have h := ihTL value (4 + len) 4 []
        cases hx : DecodeCost.tblLoop f value (4 + len) 4 [] with
        | mk res n =>
          rw [hx] at h
          cases res with
          | error e => simp only [DecodeCost.bindC, ArrB, LoopB] at h ⊢; omega
          | ok p =>
            obtain ⟨c, v⟩ := p
            simp only [DecodeCost.bindC, ArrB, LoopB] at h ⊢; omega
    · intro value fin offset acc
      simp only [DecodeCost.tblLoop]
      split
      · split
        · simp only [LoopB]; omega
        · split
          · simp only [LoopB]; omega
          · rename_i _ kl rest hd _ key hk
            have hlen : offset < value.length := by
              have : (value.drop offset).length = (kl :: rest).length := by rw [hd]
              simp only [List.length_drop, List.length_cons] at this; omega
            have h := ihE (value.drop (offset + 1 + kl.toNat))
            cases hx : DecodeCost.embedded f (value.drop (offset + 1 + kl.toNat)) with
            | mk res n =>
              rw [hx] at h
              cases res with
              | error e => simp only [DecodeCost.bindC, EmbB, LoopB, List.length_drop] at h ⊢; omega
              | ok p =>
                obtain ⟨c, v⟩ := p
                simp only [DecodeCost.bindC]
                have h2 := ihTL value fin (offset + 1 + kl.toNat + c) (Decode.dictSet acc key v)
                cases hy : DecodeCost.tblLoop f value fin (offset + 1 + kl.toNat + c)
                    (Decode.dictSet acc key v) with
                | mk res2 n2 =>
                  rw [hy] at h2
                  cases res2 with
                  | error e => simp only [EmbB, LoopB, List.length_drop] at h h2 ⊢; omega
                  | ok p2 =>
                    obtain ⟨c2, v2⟩ := p2
                    simp only [EmbB, LoopB, List.length_drop] at h h2 ⊢; omega
      · simp only [LoopB]; omega

theorem embedded_steps (f : Nat) (bs : Bytes) : (DecodeCost.embedded f bs).2 ≤ 2 * bs.length + 2 := by
  have h := (cost_invariant f).1 bs
  cases hx : DecodeCost.embedded f bs with
  | mk res n =>
    rw [hx] at h
    cases res with
    | error e => simp only [EmbB] at h ⊢; omega
    | ok p => obtain ⟨c, v⟩ := p; simp only [EmbB] at h ⊢; omega

theorem fieldArray_steps (f : Nat) (bs : Bytes) : (DecodeCost.fieldArray f bs).2 ≤ 2 * bs.length + 2 := by
  have h := (cost_invariant f).2.1 bs
  cases hx : DecodeCost.fieldArray f bs with
  | mk res n =>
    rw [hx] at h
    cases res with
    | error e => simp only [ArrB] at h ⊢; omega
    | ok p => obtain ⟨c, v⟩ := p; simp only [ArrB] at h ⊢; omega

theorem fieldTable_steps (f : Nat) (bs : Bytes) : (DecodeCost.fieldTable f bs).2 ≤ 2 * bs.length + 2 := by
  have h := (cost_invariant f).2.2.2.1 bs
  cases hx : DecodeCost.fieldTable f bs with
  | mk res n =>
    rw [hx] at h
    cases res with
    | error e => simp only [ArrB] at h ⊢; omega
    | ok p => obtain ⟨c, v⟩ := p; simp only [ArrB] at h ⊢; omega

end Pamqp.Proofs
