import Pamqp.Spec.Defs
import Pamqp.Proofs.RoundTrip
/-! # Timestamps (C15): the encoder sees only the absolute instant, the decoder always answers UTC -/
namespace Pamqp.Proofs.Time
open Pamqp

/-- the encoder is a function of the instant only -/
theorem encode_instant (m : Int) (tz : Option Int) :
    Encode.timestamp (.datetime m tz) = packU64 (Int.tdiv (Spec.instantMicros m tz) 1000000) := by
  cases tz <;> simp [Encode.timestamp, Spec.instantMicros]

theorem naive_as_utc (m : Int) :
    Encode.timestamp (.datetime m none) = Encode.timestamp (.datetime m (some 0)) := by
  rw [encode_instant, encode_instant]
  simp [Spec.instantMicros]

theorem aware_instant (m₁ m₂ off₁ off₂ : Int) (h : m₁ - off₁ * 1000000 = m₂ - off₂ * 1000000) :
    Encode.timestamp (.datetime m₁ (some off₁)) = Encode.timestamp (.datetime m₂ (some off₂)) := by
  rw [encode_instant, encode_instant]
  simp only [Spec.instantMicros, h]

theorem encoding (m : Int) (tz : Option Int) (h0 : 0 ≤ Spec.instantMicros m tz) :
    Encode.timestamp (.datetime m tz) = packU64 (Spec.instantMicros m tz / 1000000) := by
  rw [encode_instant, Int.tdiv_eq_ediv_of_nonneg h0]

theorem decode_utc (bs : Bytes) (n : Nat) (v : PyVal) (h : Decode.timestamp bs = .ok (n, v)) :
    ∃ m, v = .datetime m (some 0) := by
  unfold Decode.timestamp at h
  cases hu : unpackU 8 bs with
  | error e => rw [hu] at h; simp [bind, Except.bind] at h
  | ok ts =>
    rw [hu] at h
    simp only [bind, Except.bind, pure, Except.pure] at h
    split at h
    · split at h
      · cases h
      · injection h with h; injection h with _ h; exact ⟨_, h.symm⟩
    · injection h with h; injection h with _ h; exact ⟨_, h.symm⟩

theorem roundtrip_instant (m : Int) (tz : Option Int) (h0 : 0 ≤ Spec.instantMicros m tz)
    (h1 : Spec.instantMicros m tz / 1000000 ≤ 4294967295) (rest : Bytes) :
    ∃ bs, Encode.timestamp (.datetime m tz) = .ok bs ∧
      Decode.timestamp (bs ++ rest) =
        .ok (8, .datetime (Spec.instantMicros m tz / 1000000 * 1000000) (some 0)) := by
  have h00 : 0 ≤ Spec.instantMicros m tz / 1000000 := Int.ediv_nonneg h0 (by omega)
  obtain ⟨e, hp, _, hd⟩ := RoundTrip.timestamp_secs_rt _ h00 h1
  exact ⟨e, by rw [encoding m tz h0, hp], hd rest⟩

end Pamqp.Proofs.Time
