import Pamqp.Model.Basic
/-! # Lemmas about big-endian packing (`beN`, `unbe`, `packInt`, `unpackU`, `unpackS`, `slice`) -/
namespace Pamqp

@[simp] theorem beN_length (k n : Nat) : (beN k n).length = k := by
  induction k generalizing n with
  | zero => rfl
  | succ k ih => simp [beN, ih]

theorem unbe_append_single (bs : Bytes) (b : UInt8) : unbe (bs ++ [b]) = unbe bs * 256 + b.toNat := by
  simp [unbe, List.foldl_append]

theorem unbe_beN (k n : Nat) : unbe (beN k n) = n % 256 ^ k := by
  induction k generalizing n with
  | zero => simp [beN, unbe, Nat.mod_one]
  | succ k ih =>
    rw [beN, unbe_append_single, ih]
    have h256 : (UInt8.ofNat (n % 256)).toNat = n % 256 := by
      simp [UInt8.toNat_ofNat']
    rw [h256, Nat.pow_succ, Nat.mul_comm (256^k) 256, Nat.mod_mul]
    omega

theorem unbe_beN_of_lt (k n : Nat) (h : n < 256 ^ k) : unbe (beN k n) = n := by
  rw [unbe_beN, Nat.mod_eq_of_lt h]

theorem foldl_unbe_lt (bs : Bytes) (acc : Nat) :
    bs.foldl (fun acc b => acc * 256 + b.toNat) acc + 1 ≤ (acc + 1) * 256 ^ bs.length := by
  induction bs generalizing acc with
  | nil => simp
  | cons b bs ih =>
    have hb : b.toNat < 256 := by
      have := UInt8.toNat_lt b; simpa using this
    have := ih (acc * 256 + b.toNat)
    simp only [List.foldl_cons, List.length_cons, Nat.pow_succ]
    calc _ ≤ (acc * 256 + b.toNat + 1) * 256 ^ bs.length := this
      _ ≤ ((acc + 1) * 256) * 256 ^ bs.length := Nat.mul_le_mul_right _ (by omega)
      _ = (acc + 1) * (256 ^ bs.length * 256) := by rw [Nat.mul_assoc, Nat.mul_comm 256]

theorem unbe_lt (bs : Bytes) : unbe bs < 256 ^ bs.length := by
  have := foldl_unbe_lt bs 0
  simp only [Nat.zero_add, Nat.one_mul] at this
  exact this

theorem take_beN_append (k n : Nat) (r : Bytes) : (beN k n ++ r).take k = beN k n := by
  simp [List.take_append_of_le_length]

theorem drop_beN_append (k n : Nat) (r : Bytes) : (beN k n ++ r).drop k = r := by
  simp [List.drop_append_of_le_length]

theorem takeExact_append (k : Nat) (a r : Bytes) (h : a.length = k) :
    takeExact k (a ++ r) = .ok a := by
  simp [takeExact, h]

theorem takeExact_ok {k : Nat} {bs s : Bytes} (h : takeExact k bs = .ok s) :
    k ≤ bs.length ∧ s = bs.take k := by
  unfold takeExact at h
  split at h
  · cases h
  · cases h; exact ⟨by omega, rfl⟩

theorem takeExact_err {k : Nat} {bs : Bytes} {e : PyErr} (h : takeExact k bs = .error e) :
    e = .structError ∧ bs.length < k := by
  unfold takeExact at h
  split at h
  · cases h; exact ⟨rfl, by assumption⟩
  · cases h

theorem unpackU_beN (k n : Nat) (h : n < 256 ^ k) (r : Bytes) : unpackU k (beN k n ++ r) = .ok n := by
  simp [unpackU, takeExact_append k (beN k n) r (beN_length k n), unbe_beN_of_lt k n h, bind, Except.bind, pure,
    Except.pure]

/-- two's complement: the signed reading of the `k`-byte encoding of `v` is `v` -/
theorem unbeS_beN (k : Nat) (hk : 0 < k) (v : Int)
    (hlo : -((256 ^ k / 2 : Nat) : Int) ≤ v) (hhi : v < ((256 ^ k / 2 : Nat) : Int)) :
    unbeS (beN k (v % (256 ^ k : Nat)).toNat) = v := by
  have hpos : 0 < 256 ^ k := Nat.pow_pos (by omega)
  have heven : 256 ^ k = 2 * (256 ^ k / 2) := by
    cases k with
    | zero => omega
    | succ k => rw [Nat.pow_succ]; omega
  have hmod_nonneg : 0 ≤ v % ((256 ^ k : Nat) : Int) := Int.emod_nonneg _ (by omega)
  have hmod_lt : v % ((256 ^ k : Nat) : Int) < ((256 ^ k : Nat) : Int) := Int.emod_lt_of_pos _ (by omega)
  have hlt : (v % ((256 ^ k : Nat) : Int)).toNat < 256 ^ k := by omega
  simp only [unbeS, beN_length, unbe_beN_of_lt k _ hlt]
  by_cases hv : 0 ≤ v
  · have : v % ((256 ^ k : Nat) : Int) = v := Int.emod_eq_of_lt hv (by omega)
    rw [this]
    have : ¬ (2 * v.toNat ≥ 256 ^ k) := by omega
    simp only [this, if_false]
    omega
  · have : v % ((256 ^ k : Nat) : Int) = v + ((256 ^ k : Nat) : Int) := by
      have h1 : (v + ((256 ^ k : Nat) : Int)) % ((256 ^ k : Nat) : Int) = v % ((256 ^ k : Nat) : Int) :=
        Int.add_emod_right ..
      rw [← h1]
      exact Int.emod_eq_of_lt (by omega) (by omega)
    rw [this]
    have : 2 * (v + ((256 ^ k : Nat) : Int)).toNat ≥ 256 ^ k := by omega
    simp only [this, if_true]
    omega

theorem unpackS_beN (k : Nat) (hk : 0 < k) (v : Int)
    (hlo : -((256 ^ k / 2 : Nat) : Int) ≤ v) (hhi : v < ((256 ^ k / 2 : Nat) : Int)) (r : Bytes) :
    unpackS k (beN k (v % (256 ^ k : Nat)).toNat ++ r) = .ok v := by
  have h := unbeS_beN k hk v hlo hhi
  simp only [unpackS, takeExact_append k _ r (beN_length k _), bind, Except.bind, pure, Except.pure, h]

theorem packInt_ok {k : Nat} {lo hi v : Int} {bs : Bytes} (h : packInt k lo hi v = .ok bs) :
    lo ≤ v ∧ v ≤ hi ∧ bs = beN k (v % (256 ^ k : Nat)).toNat := by
  unfold packInt at h
  split at h
  · cases h; rename_i hr; exact ⟨hr.1, hr.2, rfl⟩
  · cases h

theorem packInt_err {k : Nat} {lo hi v : Int} {e : PyErr} (h : packInt k lo hi v = .error e) :
    e = .structError ∧ ¬ (lo ≤ v ∧ v ≤ hi) := by
  unfold packInt at h
  split at h
  · cases h
  · cases h; exact ⟨rfl, by assumption⟩

theorem packInt_of_range (k : Nat) (lo hi v : Int) (h1 : lo ≤ v) (h2 : v ≤ hi) :
    packInt k lo hi v = .ok (beN k (v % (256 ^ k : Nat)).toNat) := by
  simp [packInt, h1, h2]

theorem packInt_nat (k : Nat) (hi : Int) (n : Nat) (h : (n : Int) ≤ hi) (hk : n < 256 ^ k) :
    packInt k 0 hi n = .ok (beN k n) := by
  rw [packInt_of_range k 0 hi n (by omega) h]
  congr 2
  have : ((n : Int) % ((256 ^ k : Nat) : Int)) = n := Int.emod_eq_of_lt (by omega) (by omega)
  rw [this]; simp

theorem slice_eq (bs : Bytes) (a b : Nat) : slice bs a b = (bs.drop a).take (b - a) := rfl

theorem slice_append_mid (a b c : Bytes) :
    slice (a ++ b ++ c) a.length (a.length + b.length) = b := by
  simp [slice, List.drop_append_of_le_length, List.take_append_of_le_length]

end Pamqp
