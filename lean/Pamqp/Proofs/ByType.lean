import Pamqp.Spec.Defs
import Pamqp.Proofs.Bytes
import Pamqp.Proofs.Utf8
import Pamqp.Proofs.RoundTrip
/-! # Per-type round trip of `encode.by_type` / `decode.by_type` on accepted argument values -/
namespace Pamqp.Proofs
open Pamqp
open Pamqp.Proofs.RoundTrip
set_option linter.unusedSimpArgs false

theorem byType_octet (i : Int) (h0 : 0 ≤ i) (h1 : i ≤ 255) (rest : Bytes) :
    ∃ e, Encode.octet (.int i) = .ok e ∧ e.length = 1 ∧ Decode.octet (e ++ rest) = .ok (e.length, .int i) := by
  obtain ⟨bs, hp, hl, hd⟩ := packU_rt 1 255 i h0 h1 (by decide)
  have : ((i.toNat : Nat) : Int) = i := by omega
  exact ⟨bs, hp, hl,
    by simp only [Decode.octet, hd, bind, Except.bind, pure, Except.pure, this, hl]⟩

theorem byType_short (i : Int) (h0 : 0 ≤ i) (h1 : i ≤ 65535) (rest : Bytes) :
    ∃ e, Encode.shortUint (.int i) = .ok e ∧ e.length = 2 ∧
      Decode.shortUint (e ++ rest) = .ok (e.length, .int i) := by
  obtain ⟨bs, hp, hl, hd⟩ := packU_rt 2 65535 i h0 h1 (by decide)
  have : ((i.toNat : Nat) : Int) = i := by omega
  exact ⟨bs, by rw [Encode.shortUint, guardedInt_int _ _ _ i h0 h1]; exact hp, hl,
    by simp only [Decode.shortUint, hd, bind, Except.bind, pure, Except.pure, this, hl]⟩

theorem byType_long (i : Int) (h0 : 0 ≤ i) (h1 : i ≤ 4294967295) (rest : Bytes) :
    ∃ e, Encode.longUint (.int i) = .ok e ∧ e.length = 4 ∧
      Decode.longUint (e ++ rest) = .ok (e.length, .int i) := by
  obtain ⟨bs, hp, hl, hd⟩ := packU_rt 4 4294967295 i h0 h1 (by decide)
  have : ((i.toNat : Nat) : Int) = i := by omega
  exact ⟨bs, by rw [Encode.longUint, guardedInt_int _ _ _ i h0 h1]; exact hp, hl,
    by simp only [Decode.longUint, hd, bind, Except.bind, pure, Except.pure, this, hl]⟩

theorem byType_longlong (i : Int) (h0 : -9223372036854775808 ≤ i) (h1 : i ≤ 9223372036854775807)
    (rest : Bytes) :
    ∃ e, Encode.longLongInt (.int i) = .ok e ∧ e.length = 8 ∧
      Decode.longLongInt (e ++ rest) = .ok (e.length, .int i) := by
  obtain ⟨bs, hp, hl, hd⟩ := packS_rt 8 (by omega) (-9223372036854775808) 9223372036854775807 i h0 h1
    (by decide) (by decide)
  exact ⟨bs, by rw [Encode.longLongInt, guardedInt_int _ _ _ i h0 h1]; exact hp, hl,
    by simp only [Decode.longLongInt, hd, bind, Except.bind, pure, Except.pure, hl]⟩

theorem byType_table_none (rest : Bytes) :
    Decode.fieldTableTop ([0, 0, 0, 0] ++ rest) = .ok (4, .dict []) := by
  have d1 : unpackU 4 ([0, 0, 0, 0] ++ rest) = .ok 0 := by
    rw [unpackU_append 4 [0, 0, 0, 0] rest rfl]; rfl
  have key : ∀ n, Decode.fieldTable (n + 2) ([0, 0, 0, 0] ++ rest) = .ok (4, .dict []) := by
    intro n
    rw [Decode.fieldTable]
    simp only [d1, bind, Except.bind]
    exact tblLoop_done _ _ _ _ _ (by omega)
  obtain ⟨n, hn⟩ : ∃ n, Decode.fuelFor (([0, 0, 0, 0] : Bytes) ++ rest) = n + 2 :=
    ⟨2 * (([0, 0, 0, 0] : Bytes) ++ rest).length + 2, by unfold Decode.fuelFor; omega⟩
  rw [Decode.fieldTableTop, hn]
  exact key n

theorem byType_roundtrip (legacy : Bool) (ty : WireTy) (v : PyVal) (hty : ty ≠ .bit)
    (h : Spec.argOK legacy ty v) (rest : Bytes) (off : Nat) :
    ∃ e, Encode.byType legacy v ty = .ok e ∧ e.length = Spec.argSize legacy ty v ∧
      Decode.byType (e ++ rest) ty off = .ok (e.length, Spec.normArg ty v) := by
  cases ty with
  | bit => exact absurd rfl hty
  | unknown => cases v <;> exact absurd h (by simp [Spec.argOK])
  | octet =>
    cases v <;> try (simp [Spec.argOK] at h; done)
    case int i =>
      have h' : 0 ≤ i ∧ i ≤ 255 := by simpa [Spec.argOK] using h
      obtain ⟨e, he, hl, hd⟩ := byType_octet i h'.1 h'.2 rest
      exact ⟨e, by simpa [Encode.byType] using he, by simp [Spec.argSize, hl],
        by simpa [Decode.byType, Spec.normArg] using hd⟩
  | short =>
    cases v <;> try (simp [Spec.argOK] at h; done)
    case int i =>
      have h' : 0 ≤ i ∧ i ≤ 65535 := by simpa [Spec.argOK] using h
      obtain ⟨e, he, hl, hd⟩ := byType_short i h'.1 h'.2 rest
      exact ⟨e, by simpa [Encode.byType] using he, by simp [Spec.argSize, hl],
        by simpa [Decode.byType, Spec.normArg] using hd⟩
  | long =>
    cases v <;> try (simp [Spec.argOK] at h; done)
    case int i =>
      have h' : 0 ≤ i ∧ i ≤ 4294967295 := by simpa [Spec.argOK] using h
      obtain ⟨e, he, hl, hd⟩ := byType_long i h'.1 h'.2 rest
      exact ⟨e, by simpa [Encode.byType] using he, by simp [Spec.argSize, hl],
        by simpa [Decode.byType, Spec.normArg] using hd⟩
  | longlong =>
    cases v <;> try (simp [Spec.argOK] at h; done)
    case int i =>
      have h' : -9223372036854775808 ≤ i ∧ i ≤ 9223372036854775807 := by simpa [Spec.argOK] using h
      obtain ⟨e, he, hl, hd⟩ := byType_longlong i h'.1 h'.2 rest
      exact ⟨e, by simpa [Encode.byType] using he, by simp [Spec.argSize, hl],
        by simpa [Decode.byType, Spec.normArg] using hd⟩
  | shortstr =>
    cases v <;> try (simp [Spec.argOK] at h; done)
    case str s =>
      have h' : (utf8Encode s).isSome ∧ Spec.utf8Len s ≤ 255 := by simpa [Spec.argOK] using h
      obtain ⟨e, he, hl, hd⟩ := shortString_rt s h'.1 h'.2
      exact ⟨e, by simpa [Encode.byType] using he, by simp [Spec.argSize, hl],
        by simpa [Decode.byType, Spec.normArg] using hd rest⟩
  | longstr =>
    cases v <;> try (simp [Spec.argOK] at h; done)
    case str s =>
      have h' : (utf8Encode s).isSome ∧ Spec.utf8Len s < 2 ^ 32 := by simpa [Spec.argOK] using h
      obtain ⟨e, he, hl, hd⟩ := longString_rt s h'.1 h'.2
      exact ⟨e, by simpa [Encode.byType] using he, by simp [Spec.argSize, hl],
        by simpa [Decode.byType, Spec.normArg] using hd rest⟩
  | table =>
    cases v <;> try (simp [Spec.argOK] at h; done)
    case none =>
      exact ⟨[0, 0, 0, 0], by simp [Encode.byType, Encode.fieldTable], by simp [Spec.argSize],
        by simpa [Decode.byType, Spec.normArg] using byType_table_none rest⟩
    case dict kvs =>
      have h' : Spec.Encodable legacy (.dict kvs) := by simpa [Spec.argOK] using h
      obtain ⟨e, he, hl, hd⟩ := table_roundtrip legacy kvs h' rest
      exact ⟨e, by simpa [Encode.byType] using he, by simp [Spec.argSize, hl],
        by simpa [Decode.byType, Spec.normArg] using hd⟩
  | timestamp =>
    cases v <;> try (simp [Spec.argOK] at h; done)
    case datetime m tz =>
      have h' : Spec.Encodable legacy (.datetime m tz) := by simpa [Spec.argOK] using h
      obtain ⟨e, he, hl, hd⟩ := timestamp_rt legacy _ (Or.inl ⟨m, tz, rfl⟩) h'
      exact ⟨e, by simpa [Encode.byType] using he, by simp [Spec.argSize, hl],
        by simpa [Decode.byType, Spec.normArg, hl] using hd rest⟩
    case structTime s =>
      have h' : Spec.Encodable legacy (.structTime s) := by simpa [Spec.argOK] using h
      obtain ⟨e, he, hl, hd⟩ := timestamp_rt legacy _ (Or.inr ⟨s, rfl⟩) h'
      exact ⟨e, by simpa [Encode.byType] using he, by simp [Spec.argSize, hl],
        by simpa [Decode.byType, Spec.normArg, hl] using hd rest⟩

end Pamqp.Proofs
