import Pamqp.Spec.Defs
import Pamqp.Proofs.Bytes
import Pamqp.Proofs.Utf8
/-! # Per-type round trip of `encode.by_type` / `decode.by_type` on accepted argument values -/
namespace Pamqp.Proofs
open Pamqp

theorem byType_roundtrip (legacy : Bool) (ty : WireTy) (v : PyVal) (hty : ty ≠ .bit)
    (h : Spec.argOK legacy ty v) (rest : Bytes) (off : Nat) :
    ∃ e, Encode.byType legacy v ty = .ok e ∧ e.length = Spec.argSize legacy ty v ∧
      Decode.byType (e ++ rest) ty off = .ok (e.length, Spec.normArg ty v) := by
  sorry

end Pamqp.Proofs
