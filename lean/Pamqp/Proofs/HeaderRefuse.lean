import Pamqp.Spec.Wire
import Pamqp.Spec.Defs
import Pamqp.Generated.Catalogue
import Pamqp.Proofs.Bytes
import Pamqp.Proofs.EnvelopeLemma
import Pamqp.Proofs.FrameGrammar
import Pamqp.Proofs.Grammar
/-!
# C05, refusal clause at frame level: a content header carrying only the timestamp property
(flag word 0x0040) is decoded by running `Decode.timestamp` on the 8 bytes after the flag word;
its refusal surfaces as `UnmarshalingException`, its value lands in slot 9.
-/
namespace Pamqp.Proofs.HeaderRefuse
open Pamqp Pamqp.Proofs Pamqp.Proofs.FrameGrammar

/-- the reference envelope is the byte string the envelope lemmas talk about -/
theorem wire_eq_envBytes (t ch : Nat) (ht : t < 256) (payload : Bytes) :
    Spec.Envelope.wire ⟨t, ch, payload⟩ = envBytes t ch payload := by
  have h1 : beN 1 t = [UInt8.ofNat t] := by simp [beN, Nat.mod_eq_of_lt ht]
  simp [envBytes, Spec.Envelope.wire, h1, Frame.frameEnd]

/-- the decoded property list: defaults everywhere but slot 9 -/
def tsProps (v : PyVal) : List PyVal :=
  [.none, .none, .none, .none, .none, .none, .none, .none, .none, v, .none, .none, .none, .str (Base.strOf "")]

/-- the property loop with a flag word that a 16-bit mask sees as 64: only the timestamp is read -/
theorem props_only_timestamp (F : Int) (hF : ∀ m, m < 65536 → pyAndMask F m = 64 &&& m) (data : Bytes) :
    Base.propsUnmarshal F data (Generated.cat.props.zip (Frame.propDefaults Generated.cat)) =
      (Decode.timestamp data >>= fun r => pure (tsProps r.2)) := by
  have e0 : pyAndMask F 32768 = 0 := by rw [hF _ (by decide)]; decide
  have e1 : pyAndMask F 16384 = 0 := by rw [hF _ (by decide)]; decide
  have e2 : pyAndMask F 8192 = 0 := by rw [hF _ (by decide)]; decide
  have e3 : pyAndMask F 4096 = 0 := by rw [hF _ (by decide)]; decide
  have e4 : pyAndMask F 2048 = 0 := by rw [hF _ (by decide)]; decide
  have e5 : pyAndMask F 1024 = 0 := by rw [hF _ (by decide)]; decide
  have e6 : pyAndMask F 512 = 0 := by rw [hF _ (by decide)]; decide
  have e7 : pyAndMask F 256 = 0 := by rw [hF _ (by decide)]; decide
  have e8 : pyAndMask F 128 = 0 := by rw [hF _ (by decide)]; decide
  have e9 : pyAndMask F 64 = 64 := by rw [hF _ (by decide)]; decide
  have e10 : pyAndMask F 32 = 0 := by rw [hF _ (by decide)]; decide
  have e11 : pyAndMask F 16 = 0 := by rw [hF _ (by decide)]; decide
  have e12 : pyAndMask F 8 = 0 := by rw [hF _ (by decide)]; decide
  have e13 : pyAndMask F 4 = 0 := by rw [hF _ (by decide)]; decide
  cases hts : Decode.timestamp data with
  | error e =>
    simp [Generated.cat, Generated.props, Frame.propDefaults, Base.propsUnmarshal, Base.litVal,
      e0, e1, e2, e3, e4, e5, e6, e7, e8, e9, Decode.byType, hts, bind, Except.bind]
  | ok r =>
    obtain ⟨c, v⟩ := r
    simp [Generated.cat, Generated.props, Frame.propDefaults, Base.propsUnmarshal, Base.litVal,
      e0, e1, e2, e3, e4, e5, e6, e7, e8, e9, e10, e11, e12, e13, Decode.byType, hts,
      bind, Except.bind, pure, Except.pure, tsProps]

/-- the content header decoder on the fixed part, the flag word 0x0040 and any data -/
theorem header_only_timestamp (cls weight size : Nat) (hc : cls < 65536) (hw : weight < 65536)
    (hs : size < 2 ^ 64) (data : Bytes) :
    Frame.headerUnmarshal Generated.cat (beN 2 cls ++ beN 2 weight ++ beN 8 size ++ beN 2 0x0040 ++ data) =
      (Decode.timestamp data >>= fun r =>
        pure (.header (.int cls) (.int weight) (.int size) (tsProps r.2))) := by
  obtain ⟨F, hgf, hmask⟩ := getFlags_words 64 [] (by simp [WordsOK]) data
  have hprops := props_only_timestamp F hmask data
  simp only [List.flatMap_cons, List.flatMap_nil, List.append_nil, List.length_nil] at hgf
  generalize hH : beN 2 cls ++ beN 2 weight ++ beN 8 size = H
  have hHl : H.length = 12 := by rw [← hH]; simp
  generalize hW : beN 2 64 = W at hgf
  have hWl : W.length = 2 := by rw [← hW]; simp
  have hhd : takeExact 12 (H ++ W ++ data) = .ok H := by
    rw [List.append_assoc]; exact takeExact_append 12 _ _ hHl
  have hdrop12 : (H ++ W ++ data).drop 12 = W ++ data := by
    rw [List.append_assoc]; exact List.drop_left' hHl
  have hdropW : (H ++ W ++ data).drop (12 + (2 * (0 + 1))) = data := by
    rw [← List.drop_drop, hdrop12]; exact List.drop_left' hWl
  have hs1 : slice H 0 2 = beN 2 cls := by
    rw [← hH]; simp [slice, List.append_assoc]
  have hs2 : slice H 2 4 = beN 2 weight := by
    have := slice_append_mid (beN 2 cls) (beN 2 weight) (beN 8 size)
    rw [← hH]; simpa using this
  have hs3 : slice H 4 12 = beN 8 size := by
    have := slice_append_mid (beN 2 cls ++ beN 2 weight) (beN 8 size) []
    rw [← hH]; simpa using this
  simp only [Frame.headerUnmarshal, hhd, hdrop12, hgf, hdropW, hs1, hs2, hs3, hprops,
    unbe_beN_of_lt 2 _ (show cls < 256 ^ 2 by omega), unbe_beN_of_lt 2 _ (show weight < 256 ^ 2 by omega),
    unbe_beN_of_lt 8 _ (show size < 256 ^ 8 by omega), bind, Except.bind, pure, Except.pure]
  cases Decode.timestamp data <;> rfl

/-- the whole frame, down to `Decode.timestamp` on the last 8 bytes -/
theorem frame_only_timestamp (cls weight size ch n : Nat) (hc : cls < 65536) (hw : weight < 65536)
    (hs : size < 2 ^ 64) (hch : ch < 65536) (rest : Bytes) :
    Frame.unmarshal Generated.cat
      (Spec.Envelope.wire ⟨2, ch, beN 2 cls ++ beN 2 weight ++ beN 8 size ++ beN 2 0x0040 ++ beN 8 n⟩ ++ rest) =
      (Frame.mapCaught (Decode.timestamp (beN 8 n) >>= fun r =>
          pure (AnyFrame.header (.int cls) (.int weight) (.int size) (tsProps r.2))) >>= fun f =>
        pure (30, ch, f)) := by
  rw [wire_eq_envBytes 2 ch (by omega)]
  have hun := header_only_timestamp cls weight size hc hw hs (beN 8 n)
  generalize hP : beN 2 cls ++ beN 2 weight ++ beN 8 size ++ beN 2 0x0040 ++ beN 8 n = payload at hun
  have hpl : payload.length = 22 := by
    rw [← hP]; simp only [List.length_append, beN_length]
  have hne : payload ≠ [] := by
    intro e; rw [e] at hpl; simp at hpl
  rw [unmarshal_envelope Generated.cat 2 (Or.inr (Or.inl rfl)) ch hch payload hne (by omega) rest, hun, hpl]
  simp

theorem header_timestamp_refused (cls weight size ch n : Nat) (hc : cls < 65536) (hw : weight < 65536)
    (hs : size < 2 ^ 64) (hch : ch < 65536) (h : 253402300800000 ≤ n) (hn : n < 2 ^ 64) (rest : Bytes) :
    Frame.unmarshal Generated.cat
      (Spec.Envelope.wire ⟨2, ch, beN 2 cls ++ beN 2 weight ++ beN 8 size ++ beN 2 0x0040 ++ beN 8 n⟩ ++ rest)
      = .error .unmarshaling := by
  rw [frame_only_timestamp cls weight size ch n hc hw hs hch rest]
  have ht := (Grammar.timestamp_refused n h hn []).1
  rw [List.append_nil] at ht
  rw [ht]
  rfl

theorem header_timestamp_seconds (cls weight size ch n : Nat) (hc : cls < 65536) (hw : weight < 65536)
    (hs : size < 2 ^ 64) (hch : ch < 65536) (hn : n < 2 ^ 32) (rest : Bytes) :
    ∃ props, Frame.unmarshal Generated.cat
      (Spec.Envelope.wire ⟨2, ch, beN 2 cls ++ beN 2 weight ++ beN 8 size ++ beN 2 0x0040 ++ beN 8 n⟩ ++ rest)
      = .ok (30, ch, .header (.int cls) (.int weight) (.int size) props) ∧
      props[9]? = some (.datetime ((n : Int) * 1000000) (some 0)) := by
  refine ⟨tsProps (.datetime ((n : Int) * 1000000) (some 0)), ?_, rfl⟩
  rw [frame_only_timestamp cls weight size ch n hc hw hs hch rest]
  have ht := Grammar.timestamp_beN n (by omega) []
  rw [List.append_nil] at ht
  have h1 : ¬ n > 0xFFFFFFFF := by omega
  rw [if_neg h1] at ht
  rw [ht]
  rfl

end Pamqp.Proofs.HeaderRefuse
