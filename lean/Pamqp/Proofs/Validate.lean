import Pamqp.Model.Base
/-! # `validate()` (C13): per-rule outcome and the first-failure loop -/
namespace Pamqp.Proofs.Validate
open Pamqp

/-- outcome of one rule is `ok` or ValueError, and ValueError exactly when `B` holds -/
def RuleSpec (lookup : String → Option PyVal) (r : Rule) (B : Prop) : Prop :=
  (Base.checkRule lookup r = .error .valueError ↔ B) ∧
  (Base.checkRule lookup r = .ok () ∨ Base.checkRule lookup r = .error .valueError)

theorem ok_ne_err {e : PyErr} : (Except.ok () : R Unit) ≠ .error e := fun h => by cases h

/-! ## the loop -/

theorem validate_nil (names : List String) (vals : List PyVal) :
    Base.validate names vals [] = .ok () := rfl

theorem validate_cons_ok (names : List String) (vals : List PyVal) (r : Rule) (rs : List Rule)
    (h : Base.checkRule (Base.lookupAttr names vals) r = .ok ()) :
    Base.validate names vals (r :: rs) = Base.validate names vals rs := by
  simp only [Base.validate, h, bind, Except.bind]

theorem validate_cons_err (names : List String) (vals : List PyVal) (r : Rule) (rs : List Rule)
    (e : PyErr) (h : Base.checkRule (Base.lookupAttr names vals) r = .error e) :
    Base.validate names vals (r :: rs) = .error e := by
  simp only [Base.validate, h, bind, Except.bind]

/-- generic form of C13: `T` the typing hypothesis per rule, `B` the "broken" predicate -/
theorem validate_iff (names : List String) (vals : List PyVal) (T B : Rule → Prop)
    (hstep : ∀ r, T r → RuleSpec (Base.lookupAttr names vals) r (B r))
    (rules : List Rule) (ht : ∀ r ∈ rules, T r) :
    (Base.validate names vals rules = .error .valueError ↔ ∃ r ∈ rules, B r) ∧
    (Base.validate names vals rules = .ok () ∨ Base.validate names vals rules = .error .valueError) := by
  induction rules with
  | nil =>
    refine ⟨⟨fun h => ?_, fun ⟨r, hr, _⟩ => by cases hr⟩, Or.inl rfl⟩
    rw [validate_nil] at h
    exact absurd h ok_ne_err
  | cons r rs ih =>
    have ih := ih (fun x hx => ht x (List.mem_cons_of_mem _ hx))
    obtain ⟨hiff, hor⟩ := hstep r (ht r List.mem_cons_self)
    rcases hor with hok | herr
    · rw [validate_cons_ok names vals r rs hok]
      refine ⟨⟨fun h => ?_, fun ⟨x, hx, hb⟩ => ?_⟩, ih.2⟩
      · obtain ⟨x, hx, hb⟩ := ih.1.1 h
        exact ⟨x, List.mem_cons_of_mem _ hx, hb⟩
      · rcases List.mem_cons.1 hx with rfl | hx
        · have := hiff.2 hb
          rw [hok] at this
          exact absurd this ok_ne_err
        · exact ih.1.2 ⟨x, hx, hb⟩
    · rw [validate_cons_err names vals r rs _ herr]
      exact ⟨⟨fun _ => ⟨r, List.mem_cons_self, hiff.1 herr⟩, fun _ => rfl⟩, Or.inr rfl⟩

/-! ## the single rules -/

theorem check_mustEqInt (lookup : String → Option PyVal) (a : String) (c : Int)
    (ht : ∃ v, lookup a = some v) :
    RuleSpec lookup (.mustEqInt a c)
      (∃ v, lookup a = some v ∧ v ≠ .none ∧ Base.eqInt v c = false) := by
  obtain ⟨v, hv⟩ := ht
  unfold RuleSpec
  simp only [Base.checkRule, hv]
  split
  · next h =>
    cases h
    exact ⟨⟨fun h => absurd h ok_ne_err, fun ⟨w, hw, hn, _⟩ => by cases hw; exact absurd rfl hn⟩, Or.inl rfl⟩
  · next w hn h =>
    cases h
    cases he : Base.eqInt v c
    · exact ⟨⟨fun _ => ⟨v, rfl, fun h => hn (by rw [h]), he⟩, fun _ => by simp⟩, Or.inr (by simp)⟩
    · refine ⟨⟨fun h => by simp at h, fun ⟨w, hw, _, hf⟩ => ?_⟩, Or.inl (by simp)⟩
      cases hw; rw [he] at hf; cases hf
  · next h => cases h

theorem check_mustEqStr (lookup : String → Option PyVal) (a c : String)
    (ht : ∃ v, lookup a = some v) :
    RuleSpec lookup (.mustEqStr a c)
      (∃ v, lookup a = some v ∧ v ≠ .none ∧ Base.eqStr v c = false) := by
  obtain ⟨v, hv⟩ := ht
  unfold RuleSpec
  simp only [Base.checkRule, hv]
  split
  · next h =>
    cases h
    exact ⟨⟨fun h => absurd h ok_ne_err, fun ⟨w, hw, hn, _⟩ => by cases hw; exact absurd rfl hn⟩, Or.inl rfl⟩
  · next w hn h =>
    cases h
    cases he : Base.eqStr v c
    · exact ⟨⟨fun _ => ⟨v, rfl, fun h => hn (by rw [h]), he⟩, fun _ => by simp⟩, Or.inr (by simp)⟩
    · refine ⟨⟨fun h => by simp at h, fun ⟨w, hw, _, hf⟩ => ?_⟩, Or.inl (by simp)⟩
      cases hw; rw [he] at hf; cases hf
  · next h => cases h

theorem check_mustEqStrBare (lookup : String → Option PyVal) (a c : String)
    (ht : ∃ v, lookup a = some v) :
    RuleSpec lookup (.mustEqStrBare a c)
      (∃ v, lookup a = some v ∧ Base.eqStr v c = false) := by
  obtain ⟨v, hv⟩ := ht
  unfold RuleSpec
  simp only [Base.checkRule, hv]
  cases he : Base.eqStr v c
  · exact ⟨⟨fun _ => ⟨v, rfl, he⟩, fun _ => by simp⟩, Or.inr (by simp)⟩
  · refine ⟨⟨fun h => by simp at h, fun ⟨w, hw, hf⟩ => ?_⟩, Or.inl (by simp)⟩
    cases hw; rw [he] at hf; cases hf

theorem check_mustBeFalse (lookup : String → Option PyVal) (a : String)
    (ht : ∃ v, lookup a = some v) :
    RuleSpec lookup (.mustBeFalse a)
      (∃ v, lookup a = some v ∧ v ≠ .none ∧ v ≠ .bool false) := by
  obtain ⟨v, hv⟩ := ht
  unfold RuleSpec
  simp only [Base.checkRule, hv]
  split
  · next h =>
    cases h
    exact ⟨⟨fun h => absurd h ok_ne_err, fun ⟨w, hw, hn, _⟩ => by cases hw; exact absurd rfl hn⟩, Or.inl rfl⟩
  · next h =>
    cases h
    exact ⟨⟨fun h => absurd h ok_ne_err, fun ⟨w, hw, _, hn⟩ => by cases hw; exact absurd rfl hn⟩, Or.inl rfl⟩
  · next w hn hf h =>
    cases h
    exact ⟨⟨fun _ => ⟨v, rfl, fun h => hn (by rw [h]), fun h => hf (by rw [h])⟩, fun _ => rfl⟩, Or.inr rfl⟩
  · next h => cases h

theorem check_maxLen (lookup : String → Option PyVal) (a : String) (n : Nat)
    (ht : ∃ v, lookup a = some v ∧ (v = .none ∨ ∃ s, v = .str s)) :
    RuleSpec lookup (.maxLen a n)
      (∃ s : Str, lookup a = some (.str s) ∧ s.length > n) := by
  obtain ⟨v, hv, hty⟩ := ht
  unfold RuleSpec
  rcases hty with rfl | ⟨s, rfl⟩
  · have hc : Base.checkRule lookup (.maxLen a n) = .ok () := by simp only [Base.checkRule, hv]
    rw [hc]
    exact ⟨⟨fun h => absurd h ok_ne_err, fun ⟨w, hw, _⟩ => by rw [hv] at hw; cases hw⟩, Or.inl rfl⟩
  · simp only [Base.checkRule, hv, Base.pyLen]
    by_cases hl : s.length > n
    · rw [if_pos hl]
      exact ⟨⟨fun _ => ⟨s, rfl, hl⟩, fun _ => rfl⟩, Or.inr rfl⟩
    · rw [if_neg hl]
      refine ⟨⟨fun h => absurd h ok_ne_err, fun ⟨w, hw, hw2⟩ => ?_⟩, Or.inl rfl⟩
      cases hw; exact absurd hw2 hl

theorem check_regex (lookup : String → Option PyVal) (a d : String) (chars : List Nat)
    (hchar : ∀ c, Base.allowedChar c = true ↔ c ∈ chars)
    (ht : ∃ v, lookup a = some v ∧ (v = .none ∨ ∃ s, v = .str s)) :
    RuleSpec lookup (.regex a d)
      (∃ s : Str, lookup a = some (.str s) ∧ ∃ ch ∈ s, ch ∉ chars) := by
  obtain ⟨v, hv, hty⟩ := ht
  unfold RuleSpec
  rcases hty with rfl | ⟨s, rfl⟩
  · have hc : Base.checkRule lookup (.regex a d) = .ok () := by simp only [Base.checkRule, hv]
    rw [hc]
    exact ⟨⟨fun h => absurd h ok_ne_err, fun ⟨w, hw, _⟩ => by rw [hv] at hw; cases hw⟩, Or.inl rfl⟩
  · simp only [Base.checkRule, hv]
    cases hall : List.all s Base.allowedChar
    · have : ∃ ch ∈ s, ch ∉ chars := by
        have h2 : ¬ (∀ x ∈ s, Base.allowedChar x = true) := by
          rw [← List.all_eq_true, hall]; simp
        apply Classical.byContradiction
        intro hne
        apply h2
        intro x hx
        apply Classical.byContradiction
        intro hax
        exact hne ⟨x, hx, fun hm => hax ((hchar x).2 hm)⟩
      exact ⟨⟨fun _ => ⟨s, rfl, this⟩, fun _ => by simp⟩, Or.inr (by simp)⟩
    · refine ⟨⟨fun h => by simp at h, fun ⟨w, hw, ch, hch, hbad⟩ => ?_⟩, Or.inl (by simp)⟩
      cases hw
      exact absurd ((hchar ch).1 (List.all_eq_true.1 hall ch hch)) hbad

theorem check_oneOf (lookup : String → Option PyVal) (a : String) (cs : List Int)
    (ht : ∃ v, lookup a = some v) :
    RuleSpec lookup (.oneOf a cs)
      (∃ v, lookup a = some v ∧ v ≠ .none ∧ ∀ c ∈ cs, Base.eqInt v c = false) := by
  obtain ⟨v, hv⟩ := ht
  unfold RuleSpec
  simp only [Base.checkRule, hv]
  split
  · next h =>
    cases h
    exact ⟨⟨fun h => absurd h ok_ne_err, fun ⟨w, hw, hn, _⟩ => by cases hw; exact absurd rfl hn⟩, Or.inl rfl⟩
  · next w hn h =>
    cases h
    cases he : cs.any (Base.eqInt v)
    · have hall : ∀ c ∈ cs, Base.eqInt v c = false := by
        intro c hc
        cases hc2 : Base.eqInt v c
        · rfl
        · have : cs.any (Base.eqInt v) = true := List.any_eq_true.2 ⟨c, hc, hc2⟩
          rw [he] at this; cases this
      exact ⟨⟨fun _ => ⟨v, rfl, fun h => hn (by rw [h]), hall⟩, fun _ => by simp⟩, Or.inr (by simp)⟩
    · refine ⟨⟨fun h => by simp at h, fun ⟨w, hw, _, hf⟩ => ?_⟩, Or.inl (by simp)⟩
      cases hw
      obtain ⟨c, hc, hc2⟩ := List.any_eq_true.1 he
      rw [hf c hc] at hc2; cases hc2
  · next h => cases h

end Pamqp.Proofs.Validate
