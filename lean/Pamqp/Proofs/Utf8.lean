import Pamqp.Spec.Defs
/-! # UTF-8 model: decode ∘ encode = id on strings, encoded length -/
namespace Pamqp

theorem utf8Dec1_enc1 (c : Nat) (bs r : List Nat) (h : utf8Enc1 c = some bs) :
    utf8Dec1 (bs ++ r) = some (c, r) := by
  unfold utf8Enc1 at h
  split at h
  · cases h; simp [utf8Dec1, *]
  · split at h
    · cases h
      have h0 : ¬ (192 + c / 64 < 128) := by omega
      have h1 : ¬ (192 + c / 64 < 194) := by omega
      have h2 : 192 + c / 64 < 224 := by omega
      have h3 : isCont (128 + c % 64) = true := by simp [isCont]; omega
      have hc : (192 + c / 64 - 192) * 64 + (128 + c % 64 - 128) = c := by omega
      simp only [List.cons_append, List.nil_append, utf8Dec1, h0, h1, h2, h3, hc, if_true, if_false]
    · split at h
      · split at h
        · cases h
        · cases h
          rename_i hs
          have h0 : ¬ (224 + c / 64 / 64 < 128) := by omega
          have h1 : ¬ (224 + c / 64 / 64 < 194) := by omega
          have h2 : ¬ (224 + c / 64 / 64 < 224) := by omega
          have h3 : 224 + c / 64 / 64 < 240 := by omega
          have hc : ((224 + c / 64 / 64 - 224) * 64 + (128 + c / 64 % 64 - 128)) * 64 + (128 + c % 64 - 128) = c := by omega
          have k1 : isCont (128 + c / 64 % 64) = true := by simp [isCont]; omega
          have k2 : isCont (128 + c % 64) = true := by simp [isCont]; omega
          simp only [List.cons_append, List.nil_append, utf8Dec1, h0, h1, h2, h3, hc, k1, k2, if_true, if_false]
          have : (decide (2048 ≤ c) && !(decide (55296 ≤ c) && decide (c < 57344))) = true := by
            simp only [Bool.and_eq_true, decide_eq_true_eq, Bool.not_eq_true', Bool.and_eq_false_iff,
              decide_eq_false_iff_not]
            omega
          simp only [Bool.true_and, Bool.and_assoc, this, if_true]
      · split at h
        · cases h
          have h0 : ¬ (240 + c / 64 / 64 / 64 < 128) := by omega
          have h1 : ¬ (240 + c / 64 / 64 / 64 < 194) := by omega
          have h2 : ¬ (240 + c / 64 / 64 / 64 < 224) := by omega
          have h3 : ¬ (240 + c / 64 / 64 / 64 < 240) := by omega
          have h4 : 240 + c / 64 / 64 / 64 < 245 := by omega
          have hc : (((240 + c / 64 / 64 / 64 - 240) * 64 + (128 + c / 64 / 64 % 64 - 128)) * 64
              + (128 + c / 64 % 64 - 128)) * 64 + (128 + c % 64 - 128) = c := by omega
          have k1 : isCont (128 + c / 64 / 64 % 64) = true := by simp [isCont]; omega
          have k2 : isCont (128 + c / 64 % 64) = true := by simp [isCont]; omega
          have k3 : isCont (128 + c % 64) = true := by simp [isCont]; omega
          simp only [List.cons_append, List.nil_append, utf8Dec1, h0, h1, h2, h3, h4, hc, k1, k2, k3,
            if_true, if_false]
          have : (decide (65536 ≤ c) && decide (c < 1114112)) = true := by
            simp only [Bool.and_eq_true, decide_eq_true_eq]; omega
          simp only [Bool.true_and, Bool.and_assoc, this, if_true]
        · cases h

/-- bytes produced for one code point: 1..4 of them, all below 256 -/
theorem utf8Enc1_props (c : Nat) (bs : List Nat) (h : utf8Enc1 c = some bs) :
    bs.length = Spec.utf8Len1 c ∧ 0 < bs.length ∧ ∀ b ∈ bs, b < 256 := by
  unfold utf8Enc1 at h
  unfold Spec.utf8Len1
  split at h
  · cases h; simp [*]; omega
  · split at h
    · cases h; simp [*]; omega
    · split at h
      · split at h
        · cases h
        · cases h; simp [*]; omega
      · split at h
        · cases h; simp [*]; omega
        · cases h

theorem utf8EncNat_cons {c : Nat} {cs : Str} {bs : List Nat} (h : utf8EncNat (c :: cs) = some bs) :
    ∃ a b, utf8Enc1 c = some a ∧ utf8EncNat cs = some b ∧ bs = a ++ b := by
  simp only [utf8EncNat] at h
  cases h1 : utf8Enc1 c with
  | none => simp [h1] at h
  | some a =>
    cases h2 : utf8EncNat cs with
    | none => simp [h1, h2] at h
    | some b => simp [h1, h2] at h; exact ⟨a, b, rfl, rfl, h.symm⟩

theorem utf8EncNat_props (s : Str) (bs : List Nat) (h : utf8EncNat s = some bs) :
    bs.length = Spec.utf8Len s ∧ ∀ b ∈ bs, b < 256 := by
  induction s generalizing bs with
  | nil => simp [utf8EncNat] at h; subst h; simp [Spec.utf8Len]
  | cons c cs ih =>
    obtain ⟨a, b, h1, h2, rfl⟩ := utf8EncNat_cons h
    obtain ⟨l1, _, m1⟩ := utf8Enc1_props c a h1
    obtain ⟨l2, m2⟩ := ih b h2
    refine ⟨?_, ?_⟩
    · simp [Spec.utf8Len, l1, l2] at *
    · intro x hx
      rcases List.mem_append.mp hx with hx | hx
      · exact m1 x hx
      · exact m2 x hx

theorem utf8DecNat_encNat (s : Str) (bs : List Nat) (h : utf8EncNat s = some bs) (f : Nat)
    (hf : bs.length < f) : utf8DecNat f bs = some s := by
  induction s generalizing bs f with
  | nil =>
    simp [utf8EncNat] at h; subst h
    cases f <;> simp [utf8DecNat]
  | cons c cs ih =>
    obtain ⟨a, b, h1, h2, rfl⟩ := utf8EncNat_cons h
    obtain ⟨_, lpos, _⟩ := utf8Enc1_props c a h1
    cases f with
    | zero => omega
    | succ f =>
      have hne : a ++ b ≠ [] := by
        intro hnil
        have : (a ++ b).length = 0 := by rw [hnil]; rfl
        simp only [List.length_append] at this; omega
      have hd := utf8Dec1_enc1 c a b h1
      have ih' := ih b h2 f (by simp only [List.length_append] at hf; omega)
      cases hab : a ++ b with
      | nil => exact absurd hab hne
      | cons x xs =>
        rw [hab] at hd
        simp only [utf8DecNat, hd, ih']

theorem map_toNat_ofNat (l : List Nat) (h : ∀ b ∈ l, b < 256) :
    (l.map UInt8.ofNat).map (·.toNat) = l := by
  induction l with
  | nil => rfl
  | cons x xs ih =>
    have hx : x < 256 := h x (by simp)
    simp only [List.map_cons, UInt8.toNat_ofNat', Nat.reducePow, Nat.mod_eq_of_lt hx]
    rw [ih (fun b hb => h b (by simp [hb]))]

/-- `s.encode('utf-8').decode('utf-8') == s` -/
theorem utf8Decode_encode (s : Str) (bs : Bytes) (h : utf8Encode s = some bs) : utf8Decode bs = some s := by
  unfold utf8Encode at h
  cases hn : utf8EncNat s with
  | none => simp [hn] at h
  | some l =>
    simp [hn] at h
    subst h
    obtain ⟨_, hm⟩ := utf8EncNat_props s l hn
    unfold utf8Decode
    rw [map_toNat_ofNat l hm]
    exact utf8DecNat_encNat s l hn _ (by simp)

theorem utf8Encode_length (s : Str) (bs : Bytes) (h : utf8Encode s = some bs) :
    bs.length = Spec.utf8Len s := by
  unfold utf8Encode at h
  cases hn : utf8EncNat s with
  | none => simp [hn] at h
  | some l =>
    simp [hn] at h
    subst h
    simp [(utf8EncNat_props s l hn).1]

end Pamqp
