import Pamqp.Spec.Wire
import Pamqp.Spec.Defs
import Pamqp.Proofs.Bytes
import Pamqp.Proofs.Grammar
import Pamqp.Proofs.EnvelopeLemma
import Pamqp.Proofs.ArgLoop
import Pamqp.Proofs.PropsLoop
/-!
# C05 at frame level: method arguments and content headers built from the grammar items `Spec.AV`
are decoded by the model to the reference values (decoder side only).
-/
namespace Pamqp.Proofs.FrameGrammar
open Pamqp Pamqp.Spec Pamqp.Proofs
set_option linter.unusedSimpArgs false

/-! ## one non-bit item -/

theorem slice_one (a b r : Bytes) (ha : a.length = 1) : slice (a ++ b ++ r) 1 (b.length + 1) = b := by
  rw [List.append_assoc]; exact Grammar.slice_prefix a b r 1 ha

/-- a non-bit item followed by anything is read by `decode.by_type` of its type to its value -/
theorem byType_item (a : AV) (hwf : a.WF) (hnb : a.isBits = false) (vs : List PyVal)
    (hv : a.values = some vs) (rest : Bytes) (off : Nat) :
    ∃ ty v, a.types = [ty] ∧ ty ≠ .bit ∧ vs = [v] ∧
      Decode.byType (a.wire ++ rest) ty off = .ok (a.wire.length, v) := by
  cases a with
  | bits bs pad => simp [AV.isBits] at hnb
  | octet n =>
    simp only [AV.WF] at hwf
    simp only [AV.values, Option.some.injEq] at hv
    refine ⟨.octet, .int n, rfl, by decide, hv.symm, ?_⟩
    have hu : unpackU 1 (beN 1 n ++ rest) = .ok n := unpackU_beN 1 n (by simpa using hwf) rest
    simp only [AV.wire, Decode.byType, Decode.octet, hu, bind, Except.bind, pure, Except.pure, beN_length]
  | short n =>
    simp only [AV.WF] at hwf
    simp only [AV.values, Option.some.injEq] at hv
    refine ⟨.short, .int n, rfl, by decide, hv.symm, ?_⟩
    have hu : unpackU 2 (beN 2 n ++ rest) = .ok n := unpackU_beN 2 n (by simpa using hwf) rest
    simp only [AV.wire, Decode.byType, Decode.shortUint, hu, bind, Except.bind, pure, Except.pure, beN_length]
  | long n =>
    simp only [AV.WF] at hwf
    simp only [AV.values, Option.some.injEq] at hv
    refine ⟨.long, .int n, rfl, by decide, hv.symm, ?_⟩
    have hu : unpackU 4 (beN 4 n ++ rest) = .ok n := unpackU_beN 4 n (by simpa using hwf) rest
    simp only [AV.wire, Decode.byType, Decode.longUint, hu, bind, Except.bind, pure, Except.pure, beN_length]
  | longlong i =>
    simp only [AV.WF] at hwf
    simp only [AV.values, Option.some.injEq] at hv
    refine ⟨.longlong, .int i, rfl, by decide, hv.symm, ?_⟩
    have hu : unpackS 8 (beN 8 (i % (256 ^ 8 : Nat)).toNat ++ rest) = .ok i :=
      unpackS_beN 8 (by omega) i (by simp; omega) (by simp; omega) rest
    simp only [AV.wire, Decode.byType, Decode.longLongInt, hu, bind, Except.bind, pure, Except.pure, beN_length]
  | sstr bs =>
    simp only [AV.WF] at hwf
    obtain ⟨hlen, hutf⟩ := hwf
    cases hu8 : utf8Decode bs with
    | none => rw [hu8] at hutf; cases hutf
    | some s =>
      simp only [AV.values, hu8, Option.map_some, Option.some.injEq] at hv
      refine ⟨.shortstr, .str s, rfl, by decide, hv.symm, ?_⟩
      have d1 : unpackU 1 (beN 1 bs.length ++ bs ++ rest) = .ok bs.length := by
        rw [List.append_assoc]; exact unpackU_beN 1 _ (by simpa using hlen) _
      have d2 : slice (beN 1 bs.length ++ bs ++ rest) 1 (bs.length + 1) = bs :=
        slice_one _ _ _ (beN_length _ _)
      simp only [AV.wire, Decode.byType, Decode.shortStr, d1, d2, hu8, bind, Except.bind, pure, Except.pure,
        List.length_append, beN_length]
      rw [Nat.add_comm]
  | lstr bs =>
    simp only [AV.WF] at hwf
    have d1 : unpackU 4 (beN 4 bs.length ++ bs ++ rest) = .ok bs.length := by
      rw [List.append_assoc]; exact unpackU_beN 4 _ (by simpa using hwf) _
    have d2 : slice (beN 4 bs.length ++ bs ++ rest) 4 (bs.length + 4) = bs := by
      rw [List.append_assoc]; exact Grammar.slice_prefix _ _ _ _ (beN_length _ _)
    cases hu8 : utf8Decode bs with
    | none =>
      simp only [AV.values, hu8, Option.some.injEq] at hv
      refine ⟨.longstr, .bytes bs, rfl, by decide, hv.symm, ?_⟩
      simp only [AV.wire, Decode.byType, Decode.longStr, d1, d2, hu8, bind, Except.bind, pure, Except.pure,
        List.length_append, beN_length]
      rw [Nat.add_comm]
    | some s =>
      simp only [AV.values, hu8, Option.some.injEq] at hv
      refine ⟨.longstr, .str s, rfl, by decide, hv.symm, ?_⟩
      simp only [AV.wire, Decode.byType, Decode.longStr, d1, d2, hu8, bind, Except.bind, pure, Except.pure,
        List.length_append, beN_length]
      rw [Nat.add_comm]
  | table l =>
    simp only [AV.WF] at hwf
    cases hval : (FV.tbl l).value with
    | none => simp [AV.values, hval] at hv
    | some v =>
      simp only [AV.values, hval, Option.map_some, Option.some.injEq] at hv
      refine ⟨.table, v, rfl, by decide, hv.symm, ?_⟩
      have h := Grammar.decode_agrees_table l hwf v hval rest
      have hw : (FV.tbl l).wire = 70 :: (beN 4 (wireE l).length ++ wireE l) := by simp [FV.wire]
      rw [hw] at h
      simp only [List.drop_succ_cons, List.drop_zero, List.length_cons, Nat.add_sub_cancel] at h
      simp only [AV.wire, Decode.byType, h]
  | ts n =>
    simp only [AV.WF] at hwf
    cases hval : tsValue n with
    | none => simp [AV.values, hval] at hv
    | some v =>
      simp only [AV.values, hval, Option.map_some, Option.some.injEq] at hv
      refine ⟨.timestamp, v, rfl, by decide, hv.symm, ?_⟩
      simp only [AV.wire, Decode.byType, Grammar.timestamp_value n hwf v hval rest, beN_length]

/-! ## a run of bits sharing an octet -/

theorem packBits_lt (bs : List Bool) : packBits bs < 2 ^ bs.length := by
  induction bs with
  | nil => simp [packBits]
  | cons b bs ih =>
    simp only [packBits, List.length_cons, Nat.pow_succ]
    cases b <;> simp <;> omega

/-- bit `i` of the octet of a run is the `i`-th flag, whatever the unused high bits hold -/
theorem packBits_testBit (bs : List Bool) (pad : Nat) (i : Nat) (hi : i < bs.length) :
    (packBits bs + 2 ^ bs.length * pad).testBit i = bs[i] := by
  have h := Nat.testBit_two_pow_mul_add pad (packBits_lt bs) i
  rw [Nat.add_comm, h, if_pos hi]
  clear h
  induction bs generalizing i with
  | nil => simp at hi
  | cons b bs ih =>
    cases i with
    | zero =>
      simp only [packBits, Nat.testBit_zero, List.getElem_cons_zero]
      cases b <;> simp <;> omega
    | succ i =>
      simp only [packBits, Nat.testBit_succ, List.getElem_cons_succ]
      have : ((if b = true then 1 else 0) + 2 * packBits bs) / 2 = packBits bs := by
        cases b <;> simp <;> omega
      rw [this]
      exact ih i (by simpa using hi)

/-- inside a run: the remaining flags are read from the same octet -/
theorem loop_bits (bs : List Bool) (B : UInt8) (tail : Bytes) (tys : List WireTy) (vs : List PyVal) :
    ∀ (k : Nat) (proc : Bool), k + bs.length ≤ 6 →
      (∀ i (hi : i < bs.length), B.toNat.testBit (k + i) = bs[i]) →
      (bs = [] → proc = true) →
      Base.unmarshalLoop (k + bs.length) true (B :: tail) tys = .ok vs →
      Base.unmarshalLoop k proc (B :: tail) (bs.map (fun _ => WireTy.bit) ++ tys) = .ok (bs.map .bool ++ vs) := by
  induction bs with
  | nil =>
    intro k proc _ _ hp hc
    rw [hp rfl]
    simpa using hc
  | cons b bs ih =>
    intro k proc hk hB _ hc
    have h0 := hB 0 (by simp)
    simp only [Nat.add_zero, List.getElem_cons_zero] at h0
    have hrec := ih (k + 1) true (by simp only [List.length_cons] at hk; omega)
      (fun i hi => by
        have := hB (i + 1) (by simpa using hi)
        simpa [Nat.add_assoc, Nat.add_comm 1 i] using this)
      (fun _ => rfl)
      (by simpa [Nat.add_assoc, Nat.add_comm 1 bs.length] using hc)
    simp only [List.map_cons, List.cons_append]
    rw [unmarshalLoop_bit _ _ _ _ (by simp only [List.length_cons] at hk; omega)]
    simp only [decode_bit_cons, h0, bind, Except.bind, hrec, pure, Except.pure]

/-! ## the argument loop on a list of items -/

def headNotBits : List AV → Prop
  | [] => True
  | a :: _ => a.isBits = false

theorem headNotBits_of_max (a : AV) (as : List AV) (ha : a.isBits = true)
    (h : runsMaximal (a :: as) = true) : headNotBits as := by
  cases as with
  | nil => trivial
  | cons b rest =>
    simp only [runsMaximal, ha, Bool.true_and, Bool.and_eq_true, Bool.not_eq_true'] at h
    exact h.1

theorem runsMaximal_tail (a : AV) (as : List AV) (h : runsMaximal (a :: as) = true) :
    runsMaximal as = true := by
  cases as with
  | nil => rfl
  | cons b rest =>
    simp only [runsMaximal, Bool.and_eq_true] at h
    exact h.2

theorem avsValues_cons {a : AV} {as : List AV} {vals : List PyVal} (h : avsValues (a :: as) = some vals) :
    ∃ x y, a.values = some x ∧ avsValues as = some y ∧ vals = x ++ y := by
  simp only [avsValues] at h
  cases hx : a.values with
  | none => rw [hx] at h; cases h
  | some x =>
    cases hy : avsValues as with
    | none => rw [hx, hy] at h; cases h
    | some y =>
      rw [hx, hy] at h
      cases h
      exact ⟨x, y, rfl, rfl, rfl⟩

/-- both states of the loop: outside a run (offset 0), and just after a run of at most 6 bits whose
octet `B` is still the head of the data -/
theorem loop_items (avs : List AV) :
    ∀ (vals : List PyVal), (∀ a ∈ avs, a.WF) → runsMaximal avs = true → avsValues avs = some vals →
      ∀ rest : Bytes,
      Base.unmarshalLoop 0 false (avs.flatMap AV.wire ++ rest) (avs.flatMap AV.types) = .ok vals ∧
      (headNotBits avs → ∀ (off : Nat) (B : UInt8), off ≤ 6 →
        Base.unmarshalLoop off true (B :: (avs.flatMap AV.wire ++ rest)) (avs.flatMap AV.types) = .ok vals) := by
  induction avs with
  | nil =>
    intro vals _ _ hv rest
    simp only [avsValues, Option.some.injEq] at hv
    subst hv
    exact ⟨by simp [Base.unmarshalLoop], fun _ _ _ _ => by simp [Base.unmarshalLoop]⟩
  | cons a as ih =>
    intro vals hwf hmax hv rest
    obtain ⟨x, y, hx, hy, rfl⟩ := avsValues_cons hv
    have hwa : a.WF := hwf a List.mem_cons_self
    obtain ⟨ihA, ihB⟩ := ih y (fun b hb => hwf b (List.mem_cons_of_mem _ hb)) (runsMaximal_tail a as hmax) hy rest
    simp only [List.flatMap_cons, List.append_assoc]
    cases hb : a.isBits with
    | true =>
      cases a with
      | bits bs pad =>
        simp only [AV.WF] at hwa
        obtain ⟨h1, h6, h256⟩ := hwa
        simp only [AV.values, Option.some.injEq] at hx
        subst hx
        have hcont := ihB (headNotBits_of_max _ as hb hmax) bs.length
          (UInt8.ofNat (packBits bs + 2 ^ bs.length * pad)) h6
        have hB : ∀ i (hi : i < bs.length),
            (UInt8.ofNat (packBits bs + 2 ^ bs.length * pad)).toNat.testBit (0 + i) = bs[i] := by
          intro i hi
          rw [Nat.zero_add, UInt8.toNat_ofNat', Nat.mod_eq_of_lt (by simpa using h256)]
          exact packBits_testBit bs pad i hi
        have hne : bs = [] → false = true := by
          intro e; rw [e] at h1; simp at h1
        refine ⟨?_, fun hh => by simp [headNotBits, AV.isBits] at hh⟩
        have := loop_bits bs _ (as.flatMap AV.wire ++ rest) (as.flatMap AV.types) y 0 false
          (by omega) hB hne (by simpa using hcont)
        simpa [AV.wire, AV.types] using this
      | _ => simp [AV.isBits] at hb
    | false =>
      obtain ⟨ty, v, hty, hnb, rfl, hdec⟩ := byType_item a hwa hb x hx (as.flatMap AV.wire ++ rest) 0
      rw [hty]
      refine ⟨?_, fun _ off B hoff => ?_⟩
      · simp only [List.cons_append, List.nil_append]
        rw [unmarshalLoop_nonbit _ _ _ _ hnb]
        simp only [hdec, bind, Except.bind, List.drop_left, ihA, pure, Except.pure]
      · simp only [List.cons_append, List.nil_append]
        rw [unmarshalLoop_nonbit_proc _ _ _ _ (by omega) hnb]
        simp only [List.drop_succ_cons, List.drop_zero, hdec, bind, Except.bind, List.drop_left, ihA, pure,
          Except.pure]

theorem method_args (avs : List AV) (hwf : ∀ a ∈ avs, a.WF) (hmax : runsMaximal avs = true)
    (vals : List PyVal) (hv : avsValues avs = some vals) (rest : Bytes) :
    Base.unmarshalLoop 0 false (avs.flatMap AV.wire ++ rest) (avs.flatMap AV.types) = .ok vals :=
  (loop_items avs vals hwf hmax hv rest).1

/-! ## a whole method frame -/

theorem method_frame (cat : Cat) (hcat : Spec.catWF cat = true) (spec : MethodSpec) (hs : spec ∈ cat.methods)
    (avs : List AV) (hwf : ∀ a ∈ avs, a.WF) (hmax : runsMaximal avs = true)
    (hty : avs.flatMap AV.types = spec.types)
    (vals : List PyVal) (hv : avsValues avs = some vals)
    (ch : Nat) (hc : ch < 65536) (hsz : 4 + (avs.flatMap AV.wire).length < 2 ^ 32) (rest : Bytes) :
    Frame.unmarshal cat (envBytes 1 ch (beN 4 spec.index.toNat ++ avs.flatMap AV.wire) ++ rest) =
      .ok ((avs.flatMap AV.wire).length + 12, ch, .method spec vals) := by
  simp only [Spec.catWF, Bool.and_eq_true, List.all_eq_true, decide_eq_true_eq] at hcat
  obtain ⟨hall, hnd⟩ := hcat
  have hm := hall spec hs
  simp only [Spec.methodWF, Bool.and_eq_true, decide_eq_true_eq, beq_iff_eq] at hm
  obtain ⟨⟨⟨⟨_, hi0⟩, hi1⟩, _⟩, _⟩ := hm
  have hkeys : ∀ m ∈ cat.methods, m.key = m.index := by
    intro m hm
    have := hall m hm
    simp only [Spec.methodWF, Bool.and_eq_true, beq_iff_eq] at this
    exact this.1.1.1.1
  have hfind := find_spec cat.methods spec hs hkeys hnd
  have hidx : (spec.index % ((256 ^ 4 : Nat) : Int)).toNat = spec.index.toNat := by
    rw [Int.emod_eq_of_lt hi0 (by omega)]
  have hun : ∀ r, unpackS 4 (beN 4 spec.index.toNat ++ r) = .ok spec.index := by
    intro r
    have := unpackS_beN 4 (by omega) spec.index (by omega) (by omega) r
    rwa [hidx] at this
  let payload : Bytes := beN 4 spec.index.toNat ++ avs.flatMap AV.wire
  have hpl : payload.length = 4 + (avs.flatMap AV.wire).length := by simp [payload]
  have hpl32 : payload.length < 2 ^ 32 := by omega
  have hpne : payload ≠ [] := by
    intro h
    have := congrArg List.length h
    simp only [hpl, List.length_nil] at this
    omega
  have hd := method_args avs hwf hmax vals hv []
  rw [List.append_nil, hty] at hd
  show Frame.unmarshal cat (envBytes 1 ch payload ++ rest) = _
  rw [unmarshal_envelope cat 1 (Or.inl rfl) ch hc payload hpne hpl32 rest, hpl]
  simp only [if_true, Frame.methodUnmarshal, payload, hun, Frame.mapCaught, hfind, bind, Except.bind,
    Base.frameUnmarshal, drop_beN_append, hd, pure, Except.pure]
  congr 2
  omega

/-! ## several flag words: only the first one reaches the 16 low bits -/

theorem and_mod16 (a m : Nat) (hm : m < 65536) : a &&& m = (a % 65536) &&& m := by
  have h1 : (a &&& m) % 2 ^ 16 = a % 2 ^ 16 &&& m % 2 ^ 16 := Nat.and_mod_two_pow
  have h2 : a &&& m ≤ m := Nat.and_le_right
  rw [Nat.mod_eq_of_lt (show a &&& m < 2 ^ 16 by omega), Nat.mod_eq_of_lt (show m < 2 ^ 16 by omega)] at h1
  exact h1

/-- a mask below 2^16 sees only the value modulo 2^16 -/
theorem pyAndMask_mod (x : Int) (m : Nat) (hm : m < 65536) :
    pyAndMask x m = (x % 65536).toNat &&& m := by
  cases x with
  | ofNat a =>
    show a &&& m = (((a : Nat) : Int) % 65536).toNat &&& m
    have : (((a : Nat) : Int) % 65536).toNat = a % 65536 := by omega
    rw [this]; exact and_mod16 a m hm
  | negSucc a =>
    show m - (m &&& a) = _
    have : ((Int.negSucc a) % 65536).toNat = 65535 - a % 65536 := by omega
    rw [this, Nat.and_comm m a, and_mod16 a m hm, Nat.and_comm _ m]
    have h := and_compl16 (65535 - a % 65536) m (by omega) hm
    have e : 65535 - (65535 - a % 65536) = a % 65536 := by omega
    rw [e] at h; exact h

theorem pyAndMask_congr (x y : Int) (h : x % 65536 = y % 65536) (m : Nat) (hm : m < 65536) :
    pyAndMask x m = pyAndMask y m := by
  rw [pyAndMask_mod x m hm, pyAndMask_mod y m hm, h]

theorem and_mod16' (a b : Nat) : (a &&& b) % 65536 = a % 65536 &&& b % 65536 :=
  Nat.and_mod_two_pow (n := 16)

theorem and_65535 (x : Nat) : x &&& 65535 = x % 65536 := Nat.and_two_pow_sub_one_eq_mod x 16

/-- OR-ing a multiple of 2^16 leaves the 16 low bits alone -/
theorem pyOr_mod (a c : Int) : (pyOr a (c * 65536)) % 65536 = a % 65536 := by
  have hb : (c * 65536) % 65536 = 0 := Int.mul_emod_left ..
  generalize c * 65536 = b at hb
  cases a with
  | ofNat a =>
    cases b with
    | ofNat b =>
      show ((a ||| b : Nat) : Int) % 65536 = (a : Int) % 65536
      rw [Int.ofNat_eq_natCast] at hb
      have hb' : b % 65536 = 0 := by omega
      have h : (a ||| b) % 65536 = a % 65536 := by
        have := Nat.or_mod_two_pow (a := a) (b := b) (n := 16)
        simp only [Nat.reducePow, hb', Nat.or_zero] at this
        exact this
      omega
    | negSucc b =>
      show (Int.negSucc (b - (b &&& a))) % 65536 = (a : Int) % 65536
      have hb' : b % 65536 = 65535 := by omega
      have h : (b &&& a) % 65536 = a % 65536 := by
        rw [and_mod16', hb', Nat.and_comm, and_65535]; exact Nat.mod_mod _ _
      have hle : b &&& a ≤ b := Nat.and_le_left
      omega
  | negSucc a =>
    cases b with
    | ofNat b =>
      show (Int.negSucc (a - (a &&& b))) % 65536 = (Int.negSucc a) % 65536
      rw [Int.ofNat_eq_natCast] at hb
      have hb' : b % 65536 = 0 := by omega
      have h : (a &&& b) % 65536 = 0 := by
        rw [and_mod16', hb', Nat.and_zero]
      have hle : a &&& b ≤ a := Nat.and_le_left
      omega
    | negSucc b =>
      show (Int.negSucc (a &&& b)) % 65536 = (Int.negSucc a) % 65536
      have hb' : b % 65536 = 65535 := by omega
      have h : (a &&& b) % 65536 = a % 65536 := by
        rw [and_mod16', hb', and_65535]; exact Nat.mod_mod _ _
      omega

theorem pyShl_succ16 (p : Int) (j : Nat) :
    pyShl p ((j + 1) * 16) = (p * ((2 ^ (j * 16) : Nat) : Int)) * 65536 := by
  unfold pyShl
  have : (2 : Nat) ^ ((j + 1) * 16) = 2 ^ (j * 16) * 65536 := by
    rw [Nat.add_mul, Nat.pow_add]
  rw [this, Int.natCast_mul, Int.mul_assoc]
  rfl

/-- flag words of a content header: every word but the last has the continuation bit
(same as `Props.wordsWF`, with non-overlapping patterns) -/
def WordsOK : List Nat → Prop
  | [] => False
  | [w] => w < 65536 ∧ w % 2 = 0
  | w :: w' :: ws => w < 65536 ∧ w % 2 = 1 ∧ WordsOK (w' :: ws)

theorem getFlags_step_last (w : Nat) (hw : w < 65536) (he : w % 2 = 0) (tail : Bytes)
    (consumed : Nat) (flags : Int) (idx : Nat) :
    Frame.getFlags (beN 2 w ++ tail) consumed flags idx =
      .ok (consumed + 2, pyOr flags (pyShl (unbeS (beN 2 w)) (idx * 16))) := by
  have h1 : pyAndMask (unbeS (beN 2 w)) 1 = 0 := by
    rw [signed_flag_word w 1 hw (by omega), Nat.and_one_is_mod, he]
  rw [beN_two] at h1 ⊢
  simp only [List.cons_append, List.nil_append, Frame.getFlags, h1, beq_self_eq_true, if_true]

theorem getFlags_step_more (w : Nat) (hw : w < 65536) (ho : w % 2 = 1) (tail : Bytes)
    (consumed : Nat) (flags : Int) (idx : Nat) :
    Frame.getFlags (beN 2 w ++ tail) consumed flags idx =
      Frame.getFlags tail (consumed + 2) (pyOr flags (pyShl (unbeS (beN 2 w)) (idx * 16))) (idx + 1) := by
  have h1 : pyAndMask (unbeS (beN 2 w)) 1 = 1 := by
    rw [signed_flag_word w 1 hw (by omega), Nat.and_one_is_mod, ho]
  rw [beN_two] at h1 ⊢
  simp only [List.cons_append, List.nil_append, Frame.getFlags, h1]
  rfl

theorem getFlags_rest (ws : List Nat) (tail : Bytes) :
    WordsOK ws → ∀ (consumed : Nat) (flags : Int) (idx : Nat), 1 ≤ idx →
      ∃ F, Frame.getFlags (ws.flatMap (beN 2) ++ tail) consumed flags idx = .ok (consumed + 2 * ws.length, F) ∧
        F % 65536 = flags % 65536 := by
  induction ws with
  | nil => intro h; exact absurd h (by simp [WordsOK])
  | cons w ws ih =>
    intro hws consumed flags idx hidx
    obtain ⟨j, rfl⟩ : ∃ j, idx = j + 1 := ⟨idx - 1, by omega⟩
    cases ws with
    | nil =>
      simp only [WordsOK] at hws
      refine ⟨pyOr flags (pyShl (unbeS (beN 2 w)) ((j + 1) * 16)), ?_, ?_⟩
      · simp only [List.flatMap_cons, List.flatMap_nil, List.append_nil, List.length_cons, List.length_nil]
        exact getFlags_step_last w hws.1 hws.2 tail consumed flags (j + 1)
      · rw [pyShl_succ16]; exact pyOr_mod _ _
    | cons w' ws' =>
      simp only [WordsOK] at hws
      obtain ⟨F, hF, hmod⟩ := ih hws.2.2 (consumed + 2)
        (pyOr flags (pyShl (unbeS (beN 2 w)) ((j + 1) * 16))) (j + 1 + 1) (by omega)
      refine ⟨F, ?_, ?_⟩
      · rw [List.flatMap_cons, List.append_assoc, getFlags_step_more w hws.1 hws.2.1, hF]
        simp only [List.length_cons]
        congr 2; omega
      · rw [hmod, pyShl_succ16]; exact pyOr_mod _ _

/-- the whole `_get_flags` loop: every word is consumed, and a 16-bit mask sees the first word -/
theorem getFlags_words (w0 : Nat) (ws : List Nat) (hws : WordsOK (w0 :: ws)) (tail : Bytes) :
    ∃ F, Frame.getFlags ((w0 :: ws).flatMap (beN 2) ++ tail) 0 0 0 = .ok (2 * (ws.length + 1), F) ∧
      ∀ m, m < 65536 → pyAndMask F m = w0 &&& m := by
  cases ws with
  | nil =>
    simp only [WordsOK] at hws
    refine ⟨unbeS (beN 2 w0), ?_, fun m hm => signed_flag_word w0 m hws.1 hm⟩
    simp only [List.flatMap_cons, List.flatMap_nil, List.append_nil, List.length_nil]
    exact getFlags_single w0 hws.1 hws.2 tail
  | cons w' ws' =>
    simp only [WordsOK] at hws
    obtain ⟨F, hF, hmod⟩ := getFlags_rest (w' :: ws') tail hws.2.2 (0 + 2)
      (pyOr 0 (pyShl (unbeS (beN 2 w0)) (0 * 16))) (0 + 1) (by omega)
    refine ⟨F, ?_, fun m hm => ?_⟩
    · rw [List.flatMap_cons, List.append_assoc, getFlags_step_more w0 hws.1 hws.2.1, hF]
      simp only [List.length_cons]
      congr 2; omega
    · rw [Nat.zero_mul, pyOr_zero_shl_zero] at hmod
      rw [pyAndMask_congr F _ hmod m hm]
      exact signed_flag_word w0 m hws.1 hm

/-! ## the property list -/

/-- decoded property list: the items' values at the present slots, defaults elsewhere
(same as `Props.fillProps`) -/
def fillProps' : List PropSpec → Nat → List PyVal → List PyVal
  | [], _, _ => []
  | p :: ps, w0, vs =>
    if w0 &&& p.flag != 0 then
      match vs with
      | v :: vs' => v :: fillProps' ps w0 vs'
      | [] => []
    else Base.litVal p.default :: fillProps' ps w0 vs

theorem props_items (F : Int) (w0 : Nat) (props : List PropSpec) :
    (∀ p ∈ props, pyAndMask F p.flag = w0 &&& p.flag) →
    ∀ (items : List AV), (∀ a ∈ items, a.WF ∧ a.isBits = false) →
      items.flatMap AV.types = (props.filter (fun p => w0 &&& p.flag != 0)).map (·.ty) →
      ∀ vals, avsValues items = some vals → ∀ rest : Bytes,
      Base.propsUnmarshal F (items.flatMap AV.wire ++ rest)
          (props.zip (props.map (fun p => Base.litVal p.default))) = .ok (fillProps' props w0 vals) := by
  induction props with
  | nil =>
    intro _ items _ _ vals _ rest
    simp [Base.propsUnmarshal, fillProps']
  | cons p ps ih =>
    intro hF items hitems hty vals hv rest
    have hFp := hF p List.mem_cons_self
    have ih' := ih (fun q hq => hF q (List.mem_cons_of_mem _ hq))
    simp only [List.map_cons, List.zip_cons_cons, Base.propsUnmarshal, hFp]
    by_cases hp : (w0 &&& p.flag != 0) = true
    · simp only [List.filter_cons, hp, if_true] at hty
      cases items with
      | nil => simp at hty
      | cons a as =>
        obtain ⟨x, y, hx, hy, rfl⟩ := avsValues_cons hv
        obtain ⟨hwa, hnb⟩ := hitems a List.mem_cons_self
        obtain ⟨ty, v, hat, _, rfl, hdec⟩ := byType_item a hwa hnb x hx (as.flatMap AV.wire ++ rest) 0
        simp only [List.flatMap_cons, hat, List.map_cons, List.cons_append, List.nil_append,
          List.cons.injEq] at hty
        obtain ⟨rfl, hty'⟩ := hty
        have hrec := ih' as (fun b hb => hitems b (List.mem_cons_of_mem _ hb)) hty' y hy rest
        simp only [hp, if_true, List.flatMap_cons, List.append_assoc, hdec, bind, Except.bind, List.drop_left,
          hrec, pure, Except.pure, fillProps', List.cons_append, List.nil_append]
    · have hp' : (w0 &&& p.flag != 0) = false := by simpa using hp
      simp only [List.filter_cons, hp', Bool.false_eq_true, if_false] at hty
      have hrec := ih' items hitems hty vals hv rest
      simp only [hp', Bool.false_eq_true, if_false, hrec, bind, Except.bind, pure, Except.pure, fillProps']

/-! ## a whole content header -/

theorem words_length (ws : List Nat) : (ws.flatMap (beN 2)).length = 2 * ws.length := by
  induction ws with
  | nil => rfl
  | cons w ws ih => simp only [List.flatMap_cons, List.length_append, beN_length, ih, List.length_cons]; omega

theorem header_payload (cat : Cat) (hwf : Spec.flagsWF cat.props = true)
    (classId weight size : Nat) (hci : classId < 65536) (hw : weight < 65536) (hsize : size < 2 ^ 64)
    (w0 : Nat) (ws : List Nat) (hwords : WordsOK (w0 :: ws))
    (items : List AV) (hitems : ∀ a ∈ items, a.WF ∧ a.isBits = false)
    (hty : items.flatMap AV.types = (cat.props.filter (fun p => w0 &&& p.flag != 0)).map (·.ty))
    (vals : List PyVal) (hv : avsValues items = some vals) :
    Frame.headerUnmarshal cat
        (beN 2 classId ++ beN 2 weight ++ beN 8 size ++ (w0 :: ws).flatMap (beN 2) ++ items.flatMap AV.wire) =
      .ok (.header (.int classId) (.int weight) (.int size) (fillProps' cat.props w0 vals)) := by
  obtain ⟨hall, _⟩ := flagsWF_elim cat.props hwf
  obtain ⟨F, hgf, hmask⟩ := getFlags_words w0 ws hwords (items.flatMap AV.wire)
  have hF : ∀ p ∈ cat.props, pyAndMask F p.flag = w0 &&& p.flag := by
    intro p hp
    obtain ⟨⟨k, _, hk15, hk⟩, _⟩ := hall p hp
    apply hmask
    rw [hk]
    calc 2 ^ k ≤ 2 ^ 15 := Nat.pow_le_pow_right (by omega) hk15
      _ < 65536 := by decide
  have hprops := props_items F w0 cat.props hF items hitems hty vals hv []
  rw [List.append_nil] at hprops
  generalize hH : beN 2 classId ++ beN 2 weight ++ beN 8 size = H
  have hHl : H.length = 12 := by rw [← hH]; simp
  generalize hW : (w0 :: ws).flatMap (beN 2) = W at hgf
  have hWl : W.length = 2 * (ws.length + 1) := by rw [← hW, words_length]; simp
  generalize items.flatMap AV.wire = I at hgf hprops
  have hhd : takeExact 12 (H ++ W ++ I) = .ok H := by
    rw [List.append_assoc]; exact takeExact_append 12 _ _ hHl
  have hdrop12 : (H ++ W ++ I).drop 12 = W ++ I := by
    rw [List.append_assoc]; exact List.drop_left' hHl
  have hdropW : (H ++ W ++ I).drop (12 + (2 * (ws.length + 1))) = I := by
    rw [← List.drop_drop, hdrop12]; exact List.drop_left' hWl
  have hs1 : slice H 0 2 = beN 2 classId := by
    rw [← hH]; simp [slice, List.append_assoc]
  have hs2 : slice H 2 4 = beN 2 weight := by
    have := slice_append_mid (beN 2 classId) (beN 2 weight) (beN 8 size)
    rw [← hH]; simpa using this
  have hs3 : slice H 4 12 = beN 8 size := by
    have := slice_append_mid (beN 2 classId ++ beN 2 weight) (beN 8 size) []
    rw [← hH]; simpa using this
  simp only [Frame.headerUnmarshal, hhd, hdrop12, hgf, hdropW, hs1, hs2, hs3, Frame.propDefaults, hprops,
    unbe_beN_of_lt 2 _ (show classId < 256 ^ 2 by omega), unbe_beN_of_lt 2 _ (show weight < 256 ^ 2 by omega),
    unbe_beN_of_lt 8 _ (show size < 256 ^ 8 by omega), bind, Except.bind, pure, Except.pure]

theorem header_frame (cat : Cat) (hwf : Spec.flagsWF cat.props = true)
    (classId weight size : Nat) (hci : classId < 65536) (hw : weight < 65536) (hsize : size < 2 ^ 64)
    (w0 : Nat) (ws : List Nat) (hwords : WordsOK (w0 :: ws))
    (items : List AV) (hitems : ∀ a ∈ items, a.WF ∧ a.isBits = false)
    (hty : items.flatMap AV.types = (cat.props.filter (fun p => w0 &&& p.flag != 0)).map (·.ty))
    (vals : List PyVal) (hv : avsValues items = some vals)
    (ch : Nat) (hc : ch < 65536) (rest : Bytes)
    (hsz : 12 + 2 * (ws.length + 1) + (items.flatMap AV.wire).length < 2 ^ 32) :
    Frame.unmarshal cat (envBytes 2 ch
        (beN 2 classId ++ beN 2 weight ++ beN 8 size ++ (w0 :: ws).flatMap (beN 2) ++ items.flatMap AV.wire) ++ rest) =
      .ok (12 + 2 * (ws.length + 1) + (items.flatMap AV.wire).length + 8, ch,
           .header (.int classId) (.int weight) (.int size) (fillProps' cat.props w0 vals)) := by
  have hun := header_payload cat hwf classId weight size hci hw hsize w0 ws hwords items hitems hty vals hv
  generalize hP : beN 2 classId ++ beN 2 weight ++ beN 8 size ++ (w0 :: ws).flatMap (beN 2) ++
    items.flatMap AV.wire = payload at hun
  have hpl : payload.length = 12 + 2 * (ws.length + 1) + (items.flatMap AV.wire).length := by
    rw [← hP]
    simp only [List.length_append, beN_length, words_length, List.length_cons]
  have hne : payload ≠ [] := by
    intro e; rw [e] at hpl; simp at hpl; omega
  rw [unmarshal_envelope cat 2 (Or.inr (Or.inl rfl)) ch hc payload hne (by omega) rest, hun, hpl]
  simp [Frame.mapCaught, bind, Except.bind, pure, Except.pure]

end Pamqp.Proofs.FrameGrammar
