import Pamqp.Model.Base
/-!
# The mapping protocol of `_AMQData` (C19): iteration, membership, item access agree
-/
namespace Pamqp
namespace Mapping
open Base

theorem iter_fst (names : List String) (vals : List PyVal) (hl : vals.length = names.length) :
    (iter names vals).map (·.1) = names := by
  unfold iter
  exact List.map_fst_zip (by omega)

theorem iter_snd (names : List String) (vals : List PyVal) (hl : vals.length = names.length) :
    (iter names vals).map (·.2) = vals := by
  unfold iter
  exact List.map_snd_zip (by omega)

theorem contains_iff (names : List String) (a : String) : contains names a = true ↔ a ∈ names := by
  unfold contains
  exact List.contains_iff_mem

/-- with distinct names, the pairs of the zip are exactly the successful lookups
(no length hypothesis needed: both sides stop at the shorter list) -/
theorem mem_zip_iff_lookupAttr (names : List String) (vals : List PyVal) (hn : names.Nodup)
    (a : String) (v : PyVal) :
    (a, v) ∈ names.zip vals ↔ lookupAttr names vals a = some v := by
  induction names generalizing vals with
  | nil => simp [lookupAttr]
  | cons n ns ih =>
    cases vals with
    | nil => simp [lookupAttr]
    | cons w ws =>
      have hn' := List.nodup_cons.mp hn
      simp only [List.zip_cons_cons, List.mem_cons, Prod.mk.injEq, lookupAttr]
      by_cases hna : n = a
      · subst hna
        have hnot : ¬ (n, v) ∈ ns.zip ws := fun hm => hn'.1 (List.of_mem_zip hm).1
        simp only [beq_self_eq_true, if_true, Option.some.injEq, true_and]
        constructor
        · rintro (h | h)
          · exact h.symm
          · exact absurd h hnot
        · intro h; exact Or.inl h.symm
      · have hbeq : (n == a) = false := by simpa using hna
        have hne : ¬ (a = n ∧ v = w) := fun h => hna h.1.symm
        simp only [hbeq, Bool.false_eq_true, if_false, hne, false_or]
        exact ih ws hn'.2

theorem mem_iter_iff_getItem (names : List String) (vals : List PyVal) (hn : names.Nodup)
    (a : String) (v : PyVal) :
    (a, v) ∈ iter names vals ↔ getItem names vals a = some v :=
  mem_zip_iff_lookupAttr names vals hn a v

theorem mapping (names : List String) (vals : List PyVal) (hl : vals.length = names.length)
    (hn : names.Nodup) :
    (iter names vals).map (·.1) = names ∧ (iter names vals).map (·.2) = vals ∧
    len names = names.length ∧
    (∀ a, contains names a = true ↔ a ∈ names) ∧
    (∀ a v, (a, v) ∈ iter names vals ↔ getItem names vals a = some v) :=
  ⟨iter_fst names vals hl, iter_snd names vals hl, rfl, contains_iff names,
   mem_iter_iff_getItem names vals hn⟩

/-- association-list lookup on the first component, for distinct first components -/
theorem mem_iff_find_fst {α : Type} (args : List (String × α)) (hn : (args.map (·.1)).Nodup)
    (a : String) (t : α) :
    (a, t) ∈ args ↔ (args.find? (·.1 == a)).map (·.2) = some t := by
  induction args with
  | nil => simp
  | cons x xs ih =>
    obtain ⟨n, u⟩ := x
    simp only [List.map_cons, List.nodup_cons] at hn
    simp only [List.mem_cons, Prod.mk.injEq, List.find?_cons]
    by_cases hna : n = a
    · subst hna
      have hnot : ¬ (n, t) ∈ xs := fun hm => hn.1 (List.mem_map.mpr ⟨(n, t), hm, rfl⟩)
      simp only [beq_self_eq_true, Option.map_some, Option.some.injEq, true_and]
      constructor
      · rintro (h | h)
        · exact h.symm
        · exact absurd h hnot
      · intro h; exact Or.inl h.symm
    · have hbeq : (n == a) = false := by simpa using hna
      have hne : ¬ (a = n ∧ t = u) := fun h => hna h.1.symm
      simp only [hbeq, hne, false_or]
      exact ih hn.2

theorem amqpType_iff (args : List (String × WireTy)) (hn : (args.map (·.1)).Nodup) (a : String)
    (t : WireTy) : (a, t) ∈ args ↔ amqpType args a = some t :=
  mem_iff_find_fst args hn a t

end Mapping
end Pamqp
