import Pamqp.Spec.Defs
import Pamqp.Proofs.Bytes
/-! # The frame envelope: what `_marshal` writes and how `unmarshal` takes it apart -/
namespace Pamqp.Proofs
open Pamqp

/-- the bytes of a frame with the given type octet, channel and payload -/
def envBytes (t ch : Nat) (payload : Bytes) : Bytes :=
  UInt8.ofNat t :: (beN 2 ch ++ beN 4 payload.length ++ payload ++ [Frame.frameEnd])

theorem envBytes_length (t ch : Nat) (payload : Bytes) : (envBytes t ch payload).length = payload.length + 8 := by
  simp [envBytes]; omega

theorem envelope_ok (t ch : Nat) (hc : ch < 65536) (payload : Bytes) (hl : payload.length < 2 ^ 32) :
    Frame.envelope t (.int ch) payload = .ok (envBytes t ch payload) := by
  have h1 : packU16 (ch : Int) = .ok (beN 2 ch) := packInt_nat 2 65535 ch (by omega) (by omega)
  have h2 : packU32 (payload.length : Int) = .ok (beN 4 payload.length) :=
    packInt_nat 4 4294967295 _ (by omega) (by omega)
  simp only [Frame.envelope, PyVal.asInt?, h1, h2, bind, Except.bind, pure, Except.pure, envBytes]

/-- the type dispatch at the end of `Frame.unmarshal` -/
def dispatch (cat : Cat) (ft ch sz : Nat) (fd : Bytes) : R (Nat × Nat × AnyFrame) :=
  if ft = 1 then (Frame.methodUnmarshal cat fd >>= fun f => pure (sz + 8, ch, f))
  else if ft = 2 then (Frame.mapCaught (Frame.headerUnmarshal cat fd) >>= fun f => pure (sz + 8, ch, f))
  else if ft = 3 then .ok (sz + 8, ch, .body (.bytes fd))
  else .error .unmarshaling

/-- the general path (repaired tree, D12): a zero size is allowed when the type octet is 3 -/
theorem unmarshal_general_or (cat : Cat) (bs : Bytes) (h4 : bs.take 4 ≠ Frame.amqp) (h7 : 7 ≤ bs.length)
    (hsz : unbe (slice bs 3 7) ≠ 0 ∨ unbe (slice bs 0 1) = 3) (hlen : unbe (slice bs 3 7) + 8 ≤ bs.length)
    (hend : bs[unbe (slice bs 3 7) + 7]? = some Frame.frameEnd) :
    Frame.unmarshal cat bs =
      dispatch cat (unbe (slice bs 0 1)) (unbe (slice bs 1 3)) (unbe (slice bs 3 7))
        (slice bs 7 (unbe (slice bs 3 7) + 7)) := by
  unfold Frame.unmarshal
  rw [if_neg h4]
  have h7' : ¬ bs.length < 7 := by omega
  simp only [Frame.frameParts, if_neg h7']
  generalize unbe (slice bs 3 7) = sz at *
  generalize unbe (slice bs 0 1) = ft at *
  have e1 : sz + 8 - 1 = sz + 7 := by omega
  have e2 : 7 + sz + 1 = sz + 8 := by omega
  have c1 : ¬ (ft = 8 ∧ sz = 0) := by omega
  have c2 : ¬ (sz = 0 ∧ ft ≠ 3) := by omega
  have c3 : ¬ (sz + 8 > bs.length) := by omega
  have c4 : ¬ ((bs.drop (sz + 7)).head? ≠ some Frame.frameEnd) := by
    rw [List.head?_drop]; simp [hend]
  simp only [e1, e2, if_neg c1, if_neg c2, if_neg c3, if_neg c4, dispatch]

theorem unmarshal_general (cat : Cat) (bs : Bytes) (h4 : bs.take 4 ≠ Frame.amqp) (h7 : 7 ≤ bs.length)
    (hsz : unbe (slice bs 3 7) ≠ 0) (hlen : unbe (slice bs 3 7) + 8 ≤ bs.length)
    (hend : bs[unbe (slice bs 3 7) + 7]? = some Frame.frameEnd) :
    Frame.unmarshal cat bs =
      dispatch cat (unbe (slice bs 0 1)) (unbe (slice bs 1 3)) (unbe (slice bs 3 7))
        (slice bs 7 (unbe (slice bs 3 7) + 7)) :=
  unmarshal_general_or cat bs h4 h7 (Or.inl hsz) hlen hend

/-- the 7-byte frame header -/
def hdrBytes (t ch n : Nat) : Bytes := UInt8.ofNat t :: (beN 2 ch ++ beN 4 n)

@[simp] theorem hdrBytes_length (t ch n : Nat) : (hdrBytes t ch n).length = 7 := by
  simp [hdrBytes]

theorem envBytes_append (t ch : Nat) (payload rest : Bytes) :
    envBytes t ch payload ++ rest = hdrBytes t ch payload.length ++ (payload ++ Frame.frameEnd :: rest) := by
  simp [envBytes, hdrBytes]

theorem slice_hdr_type (t ch n : Nat) (tail : Bytes) : slice (hdrBytes t ch n ++ tail) 0 1 = [UInt8.ofNat t] := by
  simp [slice, hdrBytes]

theorem slice_hdr_chan (t ch n : Nat) (tail : Bytes) : slice (hdrBytes t ch n ++ tail) 1 3 = beN 2 ch := by
  simp [slice, hdrBytes]

theorem slice_hdr_size (t ch n : Nat) (tail : Bytes) : slice (hdrBytes t ch n ++ tail) 3 7 = beN 4 n := by
  have : hdrBytes t ch n ++ tail = (UInt8.ofNat t :: beN 2 ch) ++ beN 4 n ++ tail := by simp [hdrBytes]
  rw [this]
  exact slice_append_mid (UInt8.ofNat t :: beN 2 ch) (beN 4 n) tail

theorem unbe_single (b : UInt8) : unbe [b] = b.toNat := by simp [unbe]

theorem take4_hdr_ne (t ch n : Nat) (ht : t % 256 ≠ 65) (tail : Bytes) :
    (hdrBytes t ch n ++ tail).take 4 ≠ Frame.amqp := by
  intro h
  simp only [hdrBytes, List.cons_append, Frame.amqp, List.take_succ_cons, List.cons.injEq] at h
  apply ht
  have := congrArg UInt8.toNat h.1
  simpa [UInt8.toNat_ofNat'] using this

/-- an enveloped payload followed by anything; the payload may be empty when the type octet is 3 -/
theorem unmarshal_hdr_or (cat : Cat) (t ch : Nat) (ht : t < 256) (ht' : t ≠ 65) (hc : ch < 65536)
    (payload : Bytes) (hne : payload ≠ [] ∨ t = 3) (hl : payload.length < 2 ^ 32) (rest : Bytes) :
    Frame.unmarshal cat (envBytes t ch payload ++ rest) = dispatch cat t ch payload.length payload := by
  rw [envBytes_append]
  have hsz : unbe (slice (hdrBytes t ch payload.length ++ (payload ++ Frame.frameEnd :: rest)) 3 7) = payload.length := by
    rw [slice_hdr_size, unbe_beN_of_lt _ _ (by omega)]
  have hty : unbe (slice (hdrBytes t ch payload.length ++ (payload ++ Frame.frameEnd :: rest)) 0 1) = t := by
    rw [slice_hdr_type, unbe_single]; simp [UInt8.toNat_ofNat']; omega
  have hpos : payload.length ≠ 0 ∨ t = 3 := by
    rcases hne with hne | h3
    · left; intro h; exact hne (List.length_eq_zero_iff.1 h)
    · exact Or.inr h3
  rw [unmarshal_general_or]
  · rw [hsz, hty, slice_hdr_chan, unbe_beN_of_lt _ _ (by omega)]
    congr 1
    have := slice_append_mid (hdrBytes t ch payload.length) payload (Frame.frameEnd :: rest)
    simpa [Nat.add_comm] using this
  · exact take4_hdr_ne _ _ _ (by omega) _
  · simp
  · rw [hsz, hty]; exact hpos
  · rw [hsz]; simp; omega
  · rw [hsz]; simp [List.getElem?_append_right]

theorem unmarshal_hdr (cat : Cat) (t ch : Nat) (ht : t < 256) (ht' : t ≠ 65) (hc : ch < 65536)
    (payload : Bytes) (hne : payload ≠ []) (hl : payload.length < 2 ^ 32) (rest : Bytes) :
    Frame.unmarshal cat (envBytes t ch payload ++ rest) = dispatch cat t ch payload.length payload :=
  unmarshal_hdr_or cat t ch ht ht' hc payload (Or.inl hne) hl rest

/-- decoding an enveloped payload followed by anything dispatches on the type octet with exactly
the payload -/
theorem unmarshal_envelope (cat : Cat) (t : Nat) (ht : t = 1 ∨ t = 2 ∨ t = 3) (ch : Nat) (hc : ch < 65536)
    (payload : Bytes) (hne : payload ≠ []) (hl : payload.length < 2 ^ 32) (rest : Bytes) :
    Frame.unmarshal cat (envBytes t ch payload ++ rest) =
      if t = 1 then (Frame.methodUnmarshal cat payload >>= fun f => pure (payload.length + 8, ch, f))
      else if t = 2 then
        (Frame.mapCaught (Frame.headerUnmarshal cat payload) >>= fun f => pure (payload.length + 8, ch, f))
      else .ok (payload.length + 8, ch, .body (.bytes payload)) := by
  rw [unmarshal_hdr cat t ch (by omega) (by omega) hc payload hne hl rest, dispatch]
  rcases ht with rfl | rfl | rfl <;> simp

/-- a body frame (type octet 3) with ANY payload, the empty one included (D12), followed by anything,
decodes to exactly that payload and consumes exactly the frame -/
theorem unmarshal_envelope_body (cat : Cat) (ch : Nat) (hc : ch < 65536)
    (payload : Bytes) (hl : payload.length < 2 ^ 32) (rest : Bytes) :
    Frame.unmarshal cat (envBytes 3 ch payload ++ rest) =
      .ok (payload.length + 8, ch, .body (.bytes payload)) := by
  rw [unmarshal_hdr_or cat 3 ch (by omega) (by omega) hc payload (Or.inr rfl) hl rest, dispatch]
  simp

end Pamqp.Proofs
