import Pamqp.Spec.Defs
import Pamqp.Proofs.Bytes
/-! # The frame envelope: what `_marshal` writes and how `unmarshal` takes it apart -/
namespace Pamqp.Proofs
open Pamqp

/-- the bytes of a frame with the given type octet, channel and payload -/
def envBytes (t ch : Nat) (payload : Bytes) : Bytes :=
  UInt8.ofNat t :: (beN 2 ch ++ beN 4 payload.length ++ payload ++ [Frame.frameEnd])

theorem envBytes_length (t ch : Nat) (payload : Bytes) : (envBytes t ch payload).length = payload.length + 8 := by
  sorry

theorem envelope_ok (t ch : Nat) (hc : ch < 65536) (payload : Bytes) (hl : payload.length < 2 ^ 32) :
    Frame.envelope t (.int ch) payload = .ok (envBytes t ch payload) := by
  sorry

/-- decoding an enveloped payload followed by anything dispatches on the type octet with exactly
the payload -/
theorem unmarshal_envelope (cat : Cat) (t : Nat) (ht : t = 1 ∨ t = 2 ∨ t = 3) (ch : Nat) (hc : ch < 65536)
    (payload : Bytes) (hne : payload ≠ []) (hl : payload.length < 2 ^ 32) (rest : Bytes) :
    Frame.unmarshal cat (envBytes t ch payload ++ rest) =
      if t = 1 then (Frame.methodUnmarshal cat payload >>= fun f => pure (payload.length + 8, ch, f))
      else if t = 2 then
        (Frame.mapCaught (Frame.headerUnmarshal cat payload) >>= fun f => pure (payload.length + 8, ch, f))
      else .ok (payload.length + 8, ch, .body (.bytes payload)) := by
  sorry

end Pamqp.Proofs
