import Pamqp.Spec.Wire
import Pamqp.Spec.Defs
import Pamqp.Proofs.Refine
import Pamqp.Proofs.RefineArgs
import Pamqp.Proofs.ArgLoop
import Pamqp.Proofs.PropsLoop
/-!
# C04 at frame level: `Frame.marshal` produces `Spec.Envelope.wire` around the reference payload
(composition of the argument / property refinements with the envelope layout)
-/
namespace Pamqp.Proofs.FrameRefine
open Pamqp Pamqp.Proofs

theorem argsOK_forall (legacy : Bool) (tvs : List (WireTy × PyVal)) (h : Spec.argsOK legacy tvs) :
    ∀ p ∈ tvs, Spec.argOK legacy p.1 p.2 := by
  induction tvs with
  | nil => intro p hp; cases hp
  | cons a tvs ih =>
    obtain ⟨ty, v⟩ := a
    intro p hp
    rcases List.mem_cons.mp hp with rfl | hp
    · exact h.1
    · exact ih h.2 p hp

/-- method frame -/
theorem method_frame (legacy : Bool) (cat : Cat) (spec : MethodSpec) (vals : List PyVal)
    (ha : Spec.Accepted legacy spec vals) (hrun : Spec.bitRunOK 0 spec.types = true)
    (hidx : 0 ≤ spec.index ∧ spec.index < 4294967296) (ch : Nat) (hc : ch < 65536) :
    ∃ args, Spec.argsWire legacy (spec.types.length + 1) (spec.types.zip vals) = some args ∧
      Frame.marshal legacy cat (.method spec vals) (.int ch) =
        .ok (Spec.Envelope.wire ⟨1, ch, beN 4 spec.index.toNat ++ args⟩) := by
  have hlen : vals.length = spec.types.length := by rw [ha.len, MethodSpec.types, List.length_map]
  have htys : (spec.types.zip vals).map (·.1) = spec.types := zip_map_fst _ _ hlen
  have hziplen : (spec.types.zip vals).length = spec.types.length := by
    rw [List.length_zip, hlen, Nat.min_self]
  obtain ⟨args, hml, hal, -, -⟩ := loop_rt legacy (spec.types.zip vals) 0 0 false ha.typed
    (by simp) (by simpa [htys] using hrun)
  simp only [Bool.false_eq_true, if_false, Nat.add_zero] at hal
  have hsize := ha.size
  have hwire := Refine.args_refine legacy (spec.types.zip vals) args (by rw [htys]; exact hrun)
    (argsOK_forall legacy _ ha.typed) hml
  rw [hziplen] at hwire
  have hcast : spec.index = ((spec.index.toNat : Nat) : Int) := by omega
  have hidx' : packU32 spec.index = .ok (beN 4 spec.index.toNat) := by
    have := packInt_nat 4 4294967295 spec.index.toNat (by omega) (by omega)
    rw [← hcast] at this
    exact this
  have hpl : (beN 4 spec.index.toNat ++ args).length < 2 ^ 32 := by
    simp only [List.length_append, beN_length]; omega
  refine ⟨args, hwire, ?_⟩
  simp only [Frame.marshal, Base.frameMarshal, hidx', ha.valid, hml, bind, Except.bind]
  exact Refine.envelope_layout 1 ch (by omega) hc _ hpl

/-- content header frame -/
theorem header_frame (legacy : Bool) (cat : Cat) (hwf : Spec.flagsWF cat.props = true)
    (hcls : cat.basicClassId < 65536) (size : Nat) (hs : size < 2 ^ 64) (vals : List PyVal)
    (hlen : vals.length = cat.props.length) (hok : Spec.propsOK legacy (cat.props.zip vals))
    (hsz : Spec.propsSizeBound legacy (cat.props.zip vals) + 14 < 2 ^ 32)
    (cls weight : PyVal) (ch : Nat) (hc : ch < 65536) :
    ∃ fl parts, Spec.propsWire legacy (cat.props.zip vals) = some (fl, parts) ∧ fl < 65536 ∧
      Frame.marshal legacy cat (.header cls weight (.int size) vals) (.int ch) =
        .ok (Spec.Envelope.wire ⟨2, ch, beN 2 cat.basicClassId ++ [0, 0] ++ beN 8 size ++ beN 2 fl ++ parts⟩) := by
  obtain ⟨payload, hpay, hplen, -⟩ :=
    header_payload_roundtrip cat hwf hcls legacy vals hlen hok size hs
  obtain ⟨fl, parts, hpw, hfl, hbs⟩ :=
    Refine.header_payload_layout legacy cat hwf hcls size hs vals hlen hok payload hpay
  have hl : payload.length < 2 ^ 32 := by omega
  refine ⟨fl, parts, hpw, hfl, ?_⟩
  rw [← hbs]
  simp only [Frame.marshal, hpay, bind, Except.bind]
  exact Refine.envelope_layout 2 ch (by omega) hc payload hl

/-- content body frame -/
theorem body_frame (legacy : Bool) (cat : Cat) (b : Bytes) (hl : b.length < 2 ^ 32) (ch : Nat) (hc : ch < 65536) :
    Frame.marshal legacy cat (.body (.bytes b)) (.int ch) = .ok (Spec.Envelope.wire ⟨3, ch, b⟩) := by
  simp only [Frame.marshal]
  exact Refine.envelope_layout 3 ch (by omega) hc b hl

end Pamqp.Proofs.FrameRefine
