import Pamqp.Spec.Defs
import Pamqp.Proofs.Bytes
/-!
# Budget: the fuel-driven decoder never exhausts a linear budget (C08)
-/
namespace Pamqp.Proofs
open Pamqp Pamqp.Decode

/-! ## errors of the primitive decoders -/

/-- the error classes a primitive decoder can raise -/
def PrimErr (e : PyErr) : Prop := e = .structError ∨ e = .unicodeDecodeError ∨ e = .valueError

theorem PrimErr.ne_fuel {e : PyErr} (h : PrimErr e) : e ≠ .outOfFuel := by
  rcases h with h | h | h <;> subst h <;> decide

theorem unpackU_err {k : Nat} {bs : Bytes} {e : PyErr} (h : unpackU k bs = .error e) :
    e = .structError := by
  unfold unpackU at h
  cases h1 : takeExact k bs with
  | error e' =>
    rw [h1] at h
    simp only [bind, Except.bind] at h
    cases h
    exact (takeExact_err h1).1
  | ok s => rw [h1] at h; simp only [bind, Except.bind, pure, Except.pure] at h; cases h

theorem unpackS_err {k : Nat} {bs : Bytes} {e : PyErr} (h : unpackS k bs = .error e) :
    e = .structError := by
  unfold unpackS at h
  cases h1 : takeExact k bs with
  | error e' =>
    rw [h1] at h
    simp only [bind, Except.bind] at h
    cases h
    exact (takeExact_err h1).1
  | ok s => rw [h1] at h; simp only [bind, Except.bind, pure, Except.pure] at h; cases h

theorem unpackU_ok {k : Nat} {bs : Bytes} {n : Nat} (h : unpackU k bs = .ok n) :
    k ≤ bs.length ∧ n = unbe (bs.take k) := by
  unfold unpackU at h
  cases h1 : takeExact k bs with
  | error e' => rw [h1] at h; simp only [bind, Except.bind] at h; cases h
  | ok s =>
    rw [h1] at h; simp only [bind, Except.bind, pure, Except.pure] at h; cases h
    have := takeExact_ok h1
    exact ⟨this.1, by rw [this.2]⟩

theorem unpackS_ok {k : Nat} {bs : Bytes} {n : Int} (h : unpackS k bs = .ok n) :
    k ≤ bs.length := by
  unfold unpackS at h
  cases h1 : takeExact k bs with
  | error e' => rw [h1] at h; simp only [bind, Except.bind] at h; cases h
  | ok s => exact (takeExact_ok h1).1

/-- generic shape `do let x ← a; pure (g x)` -/
theorem bind_pure_err {α β} {a : R α} {g : α → β} {e : PyErr}
    (h : (do let x ← a; pure (g x) : R β) = .error e) : a = .error e := by
  cases a with
  | error e' => simp only [bind, Except.bind] at h; cases h; rfl
  | ok x => simp only [bind, Except.bind, pure, Except.pure] at h; cases h

theorem boolean_err {v : Bytes} {e : PyErr} (h : boolean v = .error e) : PrimErr e := by
  unfold boolean at h
  split at h
  · cases h; exact .inl rfl
  · cases h

theorem bit_err {v : Bytes} {p : Nat} {e : PyErr} (h : bit v p = .error e) : PrimErr e := by
  unfold bit at h
  split at h
  · cases h; exact .inl rfl
  · cases h

theorem shortShortInt_err {v : Bytes} {e : PyErr} (h : shortShortInt v = .error e) : PrimErr e :=
  .inl (unpackS_err (bind_pure_err h))
theorem shortShortUint_err {v : Bytes} {e : PyErr} (h : shortShortUint v = .error e) : PrimErr e :=
  .inl (unpackU_err (bind_pure_err h))
theorem octet_err {v : Bytes} {e : PyErr} (h : octet v = .error e) : PrimErr e :=
  .inl (unpackU_err (bind_pure_err h))
theorem shortInt_err {v : Bytes} {e : PyErr} (h : shortInt v = .error e) : PrimErr e :=
  .inl (unpackS_err (bind_pure_err h))
theorem shortUint_err {v : Bytes} {e : PyErr} (h : shortUint v = .error e) : PrimErr e :=
  .inl (unpackU_err (bind_pure_err h))
theorem longInt_err {v : Bytes} {e : PyErr} (h : longInt v = .error e) : PrimErr e :=
  .inl (unpackS_err (bind_pure_err h))
theorem longUint_err {v : Bytes} {e : PyErr} (h : longUint v = .error e) : PrimErr e :=
  .inl (unpackU_err (bind_pure_err h))
theorem longLongInt_err {v : Bytes} {e : PyErr} (h : longLongInt v = .error e) : PrimErr e :=
  .inl (unpackS_err (bind_pure_err h))
theorem floatingPoint_err {v : Bytes} {e : PyErr} (h : floatingPoint v = .error e) : PrimErr e :=
  .inl (takeExact_err (bind_pure_err h)).1
theorem double_err {v : Bytes} {e : PyErr} (h : double v = .error e) : PrimErr e :=
  .inl (takeExact_err (bind_pure_err h)).1
theorem byteArray_err {v : Bytes} {e : PyErr} (h : byteArray v = .error e) : PrimErr e :=
  .inl (unpackU_err (bind_pure_err h))

theorem decimal_err {v : Bytes} {e : PyErr} (h : decimal v = .error e) : PrimErr e := by
  unfold decimal at h
  cases h1 : unpackU 1 v with
  | error e' =>
    rw [h1] at h; simp only [bind, Except.bind] at h; cases h
    exact .inl (unpackU_err h1)
  | ok d =>
    rw [h1] at h; simp only [bind, Except.bind] at h
    cases h2 : unpackS 4 (v.drop 1) with
    | error e' => rw [h2] at h; cases h; exact .inl (unpackS_err h2)
    | ok x => rw [h2] at h; simp only [pure, Except.pure] at h; cases h

theorem longStr_err {v : Bytes} {e : PyErr} (h : longStr v = .error e) : PrimErr e := by
  unfold longStr at h
  cases h1 : unpackU 4 v with
  | error e' =>
    rw [h1] at h; simp only [bind, Except.bind] at h; cases h
    exact .inl (unpackU_err h1)
  | ok d =>
    rw [h1] at h; simp only [bind, Except.bind, pure, Except.pure] at h
    split at h <;> cases h

theorem shortStr_err {v : Bytes} {e : PyErr} (h : shortStr v = .error e) : PrimErr e := by
  unfold shortStr at h
  cases h1 : unpackU 1 v with
  | error e' =>
    rw [h1] at h; simp only [bind, Except.bind] at h; cases h
    exact .inl (unpackU_err h1)
  | ok d =>
    rw [h1] at h; simp only [bind, Except.bind, pure, Except.pure] at h
    split at h <;> cases h
    exact .inr (.inl rfl)

theorem timestamp_err {v : Bytes} {e : PyErr} (h : timestamp v = .error e) : PrimErr e := by
  unfold timestamp at h
  cases h1 : unpackU 8 v with
  | error e' =>
    rw [h1] at h; simp only [bind, Except.bind] at h; cases h
    exact .inl (unpackU_err h1)
  | ok d =>
    rw [h1] at h; simp only [bind, Except.bind, pure, Except.pure] at h
    split at h
    · split at h <;> cases h
      exact .inr (.inr rfl)
    · cases h

theorem void_err {v : Bytes} {e : PyErr} (h : void v = .error e) : PrimErr e := by
  cases h

theorem ite_some_cases {α} {c : Prop} [Decidable c] {a d : α} {rest : Option α}
    (h : (if c then some a else rest) = some d) : a = d ∨ rest = some d := by
  split at h
  · cases h; exact .inl rfl
  · exact .inr h

/-- every entry of `TABLE_MAPPING` other than `A` and `F` raises only
`struct.error`, `UnicodeDecodeError` or `ValueError` -/
theorem tablePrim_err {t : UInt8} {dec : Bytes → R (Nat × PyVal)} (ht : tablePrim t = some dec)
    {v : Bytes} {e : PyErr} (h : dec v = .error e) : PrimErr e := by
  unfold tablePrim at ht
  iterate 17
    (rcases ite_some_cases ht with rfl | ht
     · first
        | exact boolean_err h | exact shortShortInt_err h | exact shortShortUint_err h
        | exact shortInt_err h | exact shortUint_err h | exact longInt_err h | exact longUint_err h
        | exact longLongInt_err h | exact floatingPoint_err h | exact double_err h
        | exact decimal_err h | exact longStr_err h | exact timestamp_err h | exact void_err h
        | exact byteArray_err h)
  cases ht

/-! ## a linear budget suffices -/

theorem embedded_nil {f c : Nat} {v : PyVal} (h : embedded f [] = .ok (c, v)) : c = 0 ∧ v = .none := by
  cases f with
  | zero => simp [embedded] at h
  | succ f => simp only [embedded, Except.ok.injEq, Prod.mk.injEq] at h; exact ⟨h.1.symm, h.2.symm⟩

theorem bind_succ_ne_fuel {x : R (Nat × PyVal)} (h : x ≠ .error .outOfFuel) :
    (do let (c, v) ← x; pure (c + 1, v) : R (Nat × PyVal)) ≠ .error .outOfFuel := by
  cases x with
  | error e => simpa [bind, Except.bind] using h
  | ok p => obtain ⟨c, v⟩ := p; simp [bind, Except.bind, pure, Except.pure]

theorem prim_bind_ne_fuel {t : UInt8} {dec : Bytes → R (Nat × PyVal)} (ht : tablePrim t = some dec)
    (r : Bytes) : (do let (c, v) ← dec r; pure (c + 1, v) : R (Nat × PyVal)) ≠ .error .outOfFuel := by
  apply bind_succ_ne_fuel
  intro h
  exact (tablePrim_err ht h).ne_fuel rfl

/-- C08 core: a budget linear in the input length is never exhausted, for EVERY byte string. -/
theorem budget_suffices (f : Nat) :
    (∀ bs, 2 * bs.length + 1 ≤ f → embedded f bs ≠ .error .outOfFuel) ∧
    (∀ value, 2 * value.length + 1 ≤ f → fieldArray f value ≠ .error .outOfFuel) ∧
    (∀ value fin offset acc, 2 * (value.length - offset) + 2 ≤ f →
        arrLoop f value fin offset acc ≠ .error .outOfFuel) ∧
    (∀ value, 2 * value.length + 1 ≤ f → fieldTable f value ≠ .error .outOfFuel) ∧
    (∀ value fin offset acc, 2 * (value.length - offset) + 2 ≤ f →
        tblLoop f value fin offset acc ≠ .error .outOfFuel) := by
  induction f with
  | zero => refine ⟨?_, ?_, ?_, ?_, ?_⟩ <;> intros <;> omega
  | succ f ih =>
    obtain ⟨ihE, ihA, ihAL, ihT, ihTL⟩ := ih
    refine ⟨?_, ?_, ?_, ?_, ?_⟩
    · intro bs hf
      cases bs with
      | nil => simp [embedded]
      | cons t r =>
        simp only [List.length_cons] at hf
        simp only [embedded]
        by_cases h65 : t = 65
        · rw [if_pos h65]; exact bind_succ_ne_fuel (ihA r (by omega))
        rw [if_neg h65]
        by_cases h70 : t = 70
        · rw [if_pos h70]; exact bind_succ_ne_fuel (ihT r (by omega))
        rw [if_neg h70]
        cases hp : tablePrim t with
        | none => simp
        | some dec => exact prim_bind_ne_fuel hp r
    · intro value hf
      simp only [fieldArray]
      cases h : unpackU 4 value with
      | error e => have := unpackU_err h; subst this; simp [bind, Except.bind]
      | ok len =>
        have := (unpackU_ok h).1
        simp only [bind, Except.bind]
        exact ihAL value (4 + len) 4 [] (by omega)
    · intro value fin offset acc hf
      simp only [arrLoop]
      split
      · have hE := ihE (value.drop offset) (by simp only [List.length_drop]; omega)
        cases h : embedded f (value.drop offset) with
        | error e => rw [h] at hE; simpa [bind, Except.bind] using hE
        | ok p =>
          obtain ⟨c, v⟩ := p
          simp only [bind, Except.bind]
          split
          · simp
          · rename_i hc
            have hlen : offset < value.length := by
              apply Classical.byContradiction
              intro hge
              have : value.drop offset = [] := List.drop_eq_nil_of_le (by omega)
              rw [this] at h
              exact hc (embedded_nil h).1
            exact ihAL value fin (offset + c) _ (by omega)
      · simp
    · intro value hf
      simp only [fieldTable]
      cases h : unpackU 4 value with
      | error e => have := unpackU_err h; subst this; simp [bind, Except.bind]
      | ok len =>
        have := (unpackU_ok h).1
        simp only [bind, Except.bind]
        exact ihTL value (4 + len) 4 [] (by omega)
    · intro value fin offset acc hf
      simp only [tblLoop]
      split
      · split
        · simp
        · rename_i kl rest hd
          have hlen : offset < value.length := by
            have : (value.drop offset).length = (kl :: rest).length := by rw [hd]
            simp only [List.length_drop, List.length_cons] at this; omega
          split
          · simp
          · have hE := ihE (value.drop (offset + 1 + kl.toNat)) (by simp only [List.length_drop]; omega)
            cases h : embedded f (value.drop (offset + 1 + kl.toNat)) with
            | error e => rw [h] at hE; simpa [bind, Except.bind] using hE
            | ok p =>
              obtain ⟨c, v⟩ := p
              simp only [bind, Except.bind]
              exact ihTL value fin _ _ (by omega)
      · simp

/-! ## more fuel, same result -/

theorem bind_ne_fuel_inv {α β} {x : R α} {k : α → R β} (h : (x >>= k) ≠ .error .outOfFuel) :
    x ≠ .error .outOfFuel := by
  intro hx; subst hx; exact h rfl

/-- more fuel, same result (unless the smaller fuel was exhausted) -/
theorem fuel_monotone (f : Nat) :
    (∀ bs g, f ≤ g → embedded f bs ≠ .error .outOfFuel → embedded g bs = embedded f bs) ∧
    (∀ value g, f ≤ g → fieldArray f value ≠ .error .outOfFuel →
        fieldArray g value = fieldArray f value) ∧
    (∀ value fin offset acc g, f ≤ g → arrLoop f value fin offset acc ≠ .error .outOfFuel →
        arrLoop g value fin offset acc = arrLoop f value fin offset acc) ∧
    (∀ value g, f ≤ g → fieldTable f value ≠ .error .outOfFuel →
        fieldTable g value = fieldTable f value) ∧
    (∀ value fin offset acc g, f ≤ g → tblLoop f value fin offset acc ≠ .error .outOfFuel →
        tblLoop g value fin offset acc = tblLoop f value fin offset acc) := by
  induction f with
  | zero =>
    refine ⟨?_, ?_, ?_, ?_, ?_⟩ <;> intros <;> rename_i h <;> exfalso <;> apply h <;>
      simp [embedded, fieldArray, arrLoop, fieldTable, tblLoop]
  | succ f ih =>
    obtain ⟨ihE, ihA, ihAL, ihT, ihTL⟩ := ih
    refine ⟨?_, ?_, ?_, ?_, ?_⟩
    · intro bs g hg h
      obtain ⟨g, rfl⟩ : ∃ g', g = g' + 1 := ⟨g - 1, by omega⟩
      have hg' : f ≤ g := by omega
      cases bs with
      | nil => simp [embedded]
      | cons t r =>
        simp only [embedded] at h ⊢
        by_cases h65 : t = 65
        · simp only [if_pos h65] at h ⊢
          rw [ihA r g hg' (bind_ne_fuel_inv h)]
        simp only [if_neg h65] at h ⊢
        by_cases h70 : t = 70
        · simp only [if_pos h70] at h ⊢
          rw [ihT r g hg' (bind_ne_fuel_inv h)]
        simp only [if_neg h70] at h ⊢
    · intro value g hg h
      obtain ⟨g, rfl⟩ : ∃ g', g = g' + 1 := ⟨g - 1, by omega⟩
      have hg' : f ≤ g := by omega
      simp only [fieldArray] at h ⊢
      cases hu : unpackU 4 value with
      | error e => simp [bind, Except.bind]
      | ok len =>
        rw [hu] at h
        simp only [bind, Except.bind] at h ⊢
        exact ihAL _ _ _ _ g hg' h
    · intro value fin offset acc g hg h
      obtain ⟨g, rfl⟩ : ∃ g', g = g' + 1 := ⟨g - 1, by omega⟩
      have hg' : f ≤ g := by omega
      simp only [arrLoop] at h ⊢
      split
      · rename_i hlt
        rw [if_pos hlt] at h
        rw [ihE _ g hg' (bind_ne_fuel_inv h)]
        cases hx : embedded f (value.drop offset) with
        | error e => simp [bind, Except.bind]
        | ok p =>
          obtain ⟨c, v⟩ := p
          rw [hx] at h
          simp only [bind, Except.bind] at h ⊢
          split
          · rfl
          · rename_i hc
            rw [if_neg hc] at h
            exact ihAL _ _ _ _ g hg' h
      · rfl
    · intro value g hg h
      obtain ⟨g, rfl⟩ : ∃ g', g = g' + 1 := ⟨g - 1, by omega⟩
      have hg' : f ≤ g := by omega
      simp only [fieldTable] at h ⊢
      cases hu : unpackU 4 value with
      | error e => simp [bind, Except.bind]
      | ok len =>
        rw [hu] at h
        simp only [bind, Except.bind] at h ⊢
        exact ihTL _ _ _ _ g hg' h
    · intro value fin offset acc g hg h
      obtain ⟨g, rfl⟩ : ∃ g', g = g' + 1 := ⟨g - 1, by omega⟩
      have hg' : f ≤ g := by omega
      simp only [tblLoop] at h ⊢
      split
      · rename_i hlt
        rw [if_pos hlt] at h
        split
        · rfl
        · rename_i kl rest hd
          rw [hd] at h
          simp only at h
          split
          · rfl
          · rename_i key hk
            rw [hk] at h
            simp only at h
            rw [ihE _ g hg' (bind_ne_fuel_inv h)]
            cases hx : embedded f (value.drop (offset + 1 + kl.toNat)) with
            | error e => simp [bind, Except.bind]
            | ok p =>
              obtain ⟨c, v⟩ := p
              rw [hx] at h
              simp only [bind, Except.bind] at h ⊢
              exact ihTL _ _ _ _ g hg' h
      · rfl

/-! ## progress of the loops -/

theorem bind_succ_ok {x : R (Nat × PyVal)} {c' : Nat} {v' : PyVal}
    (h : (do let (c, v) ← x; pure (c + 1, v) : R (Nat × PyVal)) = .ok (c', v')) :
    ∃ c, x = .ok (c, v') ∧ c' = c + 1 := by
  cases x with
  | error e => simp [bind, Except.bind] at h
  | ok p =>
    obtain ⟨c, v⟩ := p
    simp only [bind, Except.bind, pure, Except.pure, Except.ok.injEq, Prod.mk.injEq] at h
    exact ⟨c, by rw [h.2], h.1.symm⟩

theorem bind_succ_err {x : R (Nat × PyVal)} {e : PyErr}
    (h : (do let (c, v) ← x; pure (c + 1, v) : R (Nat × PyVal)) = .error e) : x = .error e := by
  cases x with
  | error e' => simpa [bind, Except.bind] using h
  | ok p => obtain ⟨c, v⟩ := p; simp [bind, Except.bind, pure, Except.pure] at h

/-- what `embedded (f+1) (t :: r)` returns on success -/
theorem embedded_cons_ok {f : Nat} {t : UInt8} {r : Bytes} {c : Nat} {v : PyVal}
    (h : embedded (f + 1) (t :: r) = .ok (c, v)) :
    ∃ c0, c = c0 + 1 ∧
      ((t = 65 ∧ fieldArray f r = .ok (c0, v)) ∨ (t ≠ 65 ∧ t = 70 ∧ fieldTable f r = .ok (c0, v)) ∨
       (t ≠ 65 ∧ t ≠ 70 ∧ ∃ dec, tablePrim t = some dec ∧ dec r = .ok (c0, v))) := by
  simp only [embedded] at h
  by_cases h65 : t = 65
  · simp only [if_pos h65] at h
    obtain ⟨c0, h1, h2⟩ := bind_succ_ok h
    exact ⟨c0, h2, .inl ⟨h65, h1⟩⟩
  simp only [if_neg h65] at h
  by_cases h70 : t = 70
  · simp only [if_pos h70] at h
    obtain ⟨c0, h1, h2⟩ := bind_succ_ok h
    exact ⟨c0, h2, .inr (.inl ⟨h65, h70, h1⟩)⟩
  simp only [if_neg h70] at h
  cases hp : tablePrim t with
  | none => rw [hp] at h; cases h
  | some dec =>
    rw [hp] at h
    obtain ⟨c0, h1, h2⟩ := bind_succ_ok h
    exact ⟨c0, h2, .inr (.inr ⟨h65, h70, dec, rfl, h1⟩)⟩

theorem embedded_progress {f : Nat} {bs : Bytes} {c : Nat} {v : PyVal}
    (h : embedded f bs = .ok (c, v)) : bs = [] ∨ 0 < c := by
  cases f with
  | zero => simp [embedded] at h
  | succ f =>
    cases bs with
    | nil => exact .inl rfl
    | cons t r =>
      obtain ⟨c0, hc, _⟩ := embedded_cons_ok h
      exact .inr (by omega)

theorem getFlags_progress (data : Bytes) (consumed : Nat) (flags : Int) (idx : Nat) (n : Nat) (fl : Int)
    (h : Frame.getFlags data consumed flags idx = .ok (n, fl)) :
    consumed + 2 ≤ n ∧ n ≤ consumed + data.length := by
  fun_induction Frame.getFlags data consumed flags idx with
  | case1 b0 b1 rest consumed flags idx p flags' hz =>
    simp only [Except.ok.injEq, Prod.mk.injEq] at h
    simp only [List.length_cons]; omega
  | case2 b0 b1 rest consumed flags idx p flags' hz ih =>
    have := ih h
    simp only [List.length_cons]; omega
  | case3 => cases h

theorem getFlags_err {data : Bytes} {consumed : Nat} {flags : Int} {idx : Nat} {e : PyErr}
    (h : Frame.getFlags data consumed flags idx = .error e) : e = .structError := by
  fun_induction Frame.getFlags data consumed flags idx with
  | case1 => cases h
  | case2 b0 b1 rest consumed flags idx p flags' hz ih => exact ih h
  | case3 => cases h; rfl

end Pamqp.Proofs
