import Pamqp.Spec.Wire
import Pamqp.Proofs.Bytes
/-! # The model decoder accepts the field-value grammar (C05)

`Spec.FV` trees serialised by `FV.wire` are read by `Decode.embedded` to `FV.value`, and by the
strict reference parser `Spec.parseFV` back to the tree. -/
namespace Pamqp.Proofs.Grammar
open Pamqp Pamqp.Spec
set_option linter.unusedSimpArgs false

/-! ## timestamps -/

theorem timestamp_beN (n : Nat) (hn : n < 2 ^ 64) (rest : Bytes) :
    Decode.timestamp (beN 8 n ++ rest) =
      if n > 0xFFFFFFFF then
        if (n : Int) * 1000 > Decode.maxMicros then .error .valueError
        else .ok (8, .datetime ((n : Int) * 1000) (some 0))
      else .ok (8, .datetime ((n : Int) * 1000000) (some 0)) := by
  have hu : unpackU 8 (beN 8 n ++ rest) = .ok n := unpackU_beN 8 n (by simpa using hn) rest
  simp only [Decode.timestamp, hu, bind, Except.bind, pure, Except.pure]

theorem timestamp_refused (n : Nat) (h : 253402300800000 ≤ n) (hn : n < 2 ^ 64) (rest : Bytes) :
    Decode.timestamp (beN 8 n ++ rest) = .error .valueError ∧ Spec.tsValue n = none := by
  constructor
  · rw [timestamp_beN n hn rest]
    have h1 : n > 0xFFFFFFFF := by omega
    have h2 : (n : Int) * 1000 > Decode.maxMicros := by simp only [Decode.maxMicros]; omega
    simp only [h1, h2, if_true]
  · have h1 : ¬ n ≤ 0xFFFFFFFF := by omega
    have h2 : ¬ (n : Int) * 1000 ≤ 253402300799999999 := by omega
    simp only [Spec.tsValue, h1, h2, if_false]

theorem timestamp_ms (n : Nat) (h : 4294967296 ≤ n) (h' : n ≤ 253402300799999) (rest : Bytes) :
    Decode.timestamp (beN 8 n ++ rest) = .ok (8, .datetime ((n : Int) * 1000) (some 0)) := by
  rw [timestamp_beN n (by omega) rest]
  have h1 : n > 0xFFFFFFFF := by omega
  have h2 : ¬ (n : Int) * 1000 > Decode.maxMicros := by simp only [Decode.maxMicros]; omega
  simp only [h1, h2, if_true, if_false]

theorem timestamp_value (n : Nat) (hn : n < 2 ^ 64) (v : PyVal) (hv : Spec.tsValue n = some v)
    (rest : Bytes) : Decode.timestamp (beN 8 n ++ rest) = .ok (8, v) := by
  rw [timestamp_beN n hn rest]
  unfold Spec.tsValue at hv
  by_cases h1 : n ≤ 0xFFFFFFFF
  · have h1' : ¬ n > 0xFFFFFFFF := by omega
    simp only [h1, if_true] at hv
    cases hv
    simp only [h1', if_false]
  · have h1' : n > 0xFFFFFFFF := by omega
    simp only [h1, if_false] at hv
    by_cases h2 : (n : Int) * 1000 ≤ 253402300799999999
    · simp only [h2, if_true] at hv
      cases hv
      have h2' : ¬ (n : Int) * 1000 > Decode.maxMicros := by simp only [Decode.maxMicros]; omega
      simp only [h1', h2', if_true, if_false]
    · simp only [h2, if_false] at hv
      cases hv

/-! ## the property carried by the induction -/

/-- with fuel at least twice the wire length the model decoder reads `fv.wire`, whatever follows,
to the reference value, consuming exactly the wire -/
def Ok (fv : FV) : Prop :=
  ∀ v, fv.value = some v → ∀ f rest, 2 * fv.wire.length ≤ f →
    Decode.embedded f (fv.wire ++ rest) = .ok (fv.wire.length, v)

theorem wire_pos (fv : FV) : 0 < fv.wire.length := by
  cases fv <;> simp [FV.wire]
  split <;> simp

theorem embedded_prim (t : UInt8) (dec : Bytes → R (Nat × PyVal)) (ht : Decode.tablePrim t = some dec)
    (h65 : t ≠ 65) (h70 : t ≠ 70) (f : Nat) (r : Bytes) (c : Nat) (v : PyVal) (hd : dec r = .ok (c, v)) :
    Decode.embedded (f + 1) (t :: r) = .ok (c + 1, v) := by
  simp only [Decode.embedded, h65, h70, if_false, ht, hd, bind, Except.bind, pure, Except.pure]

theorem ok_of_prim (fv : FV) (t : UInt8) (body : Bytes) (dec : Bytes → R (Nat × PyVal)) (v : PyVal)
    (hw : fv.wire = t :: body) (hv : fv.value = some v)
    (ht : Decode.tablePrim t = some dec) (h65 : t ≠ 65) (h70 : t ≠ 70)
    (hdec : ∀ rest, dec (body ++ rest) = .ok (body.length, v)) : Ok fv := by
  intro v' hv' f rest hf
  rw [hv] at hv'; cases hv'
  rw [hw] at hf ⊢
  cases f with
  | zero => simp at hf
  | succ f =>
    rw [List.cons_append, embedded_prim t dec ht h65 h70 f _ _ _ (hdec rest)]
    simp

/-! ## primitives -/

theorem ok_bool (b : Bool) : Ok (.bool b) :=
  ok_of_prim (.bool b) 116 [if b then 1 else 0] Decode.boolean (.bool b) (by simp [FV.wire]) (by simp [FV.value])
    (by simp [Decode.tablePrim]) (by decide) (by decide)
    (fun rest => by cases b <;> simp [Decode.boolean])

theorem intShape_cases {tag : UInt8} {k : Nat} {s : Bool} (h : intShape tag = some (k, s)) :
    (tag = 98 ∧ k = 1 ∧ s = true) ∨ (tag = 66 ∧ k = 1 ∧ s = false) ∨ (tag = 115 ∧ k = 2 ∧ s = true) ∨
    (tag = 117 ∧ k = 2 ∧ s = false) ∨ (tag = 73 ∧ k = 4 ∧ s = true) ∨ (tag = 105 ∧ k = 4 ∧ s = false) ∨
    (tag = 108 ∧ k = 8 ∧ s = true) ∨ (tag = 76 ∧ k = 8 ∧ s = true) := by
  unfold intShape at h
  repeat (split at h; · simp at h; simp [*])
  simp at h

theorem int_wire (tag : UInt8) (k : Nat) (s : Bool) (n : Int) (h : intShape tag = some (k, s)) :
    (FV.int tag n).wire = tag :: beN k (n % (256 ^ k : Nat)).toNat := by
  simp [FV.wire, h]

theorem ok_int_signed (tag : UInt8) (k : Nat) (n : Int) (dec : Bytes → R (Nat × PyVal))
    (hs : intShape tag = some (k, true)) (hk : 0 < k) (hr : intInRange k true n)
    (ht : Decode.tablePrim tag = some dec) (h65 : tag ≠ 65) (h70 : tag ≠ 70)
    (hdec : ∀ bs, dec bs = (do let v ← unpackS k bs; pure (k, .int v))) : Ok (.int tag n) := by
  refine ok_of_prim (.int tag n) tag _ dec (.int n) (int_wire tag k true n hs) (by simp [FV.value]) ht h65 h70 ?_
  intro rest
  have hr' : -((256 ^ k / 2 : Nat) : Int) ≤ n ∧ n < ((256 ^ k / 2 : Nat) : Int) := by
    simpa [intInRange] using hr
  rw [hdec, unpackS_beN k hk n hr'.1 hr'.2 rest]
  simp [bind, Except.bind, pure, Except.pure]

theorem toNat_emod_of_range (k : Nat) (n : Int) (h0 : 0 ≤ n) (h1 : n < ((256 ^ k : Nat) : Int)) :
    (n % ((256 ^ k : Nat) : Int)).toNat = n.toNat := by
  rw [Int.emod_eq_of_lt h0 h1]

theorem ok_int_unsigned (tag : UInt8) (k : Nat) (n : Int) (dec : Bytes → R (Nat × PyVal))
    (hs : intShape tag = some (k, false)) (hr : intInRange k false n)
    (ht : Decode.tablePrim tag = some dec) (h65 : tag ≠ 65) (h70 : tag ≠ 70)
    (hdec : ∀ bs, dec bs = (do let v ← unpackU k bs; pure (k, .int v))) : Ok (.int tag n) := by
  refine ok_of_prim (.int tag n) tag _ dec (.int n) (int_wire tag k false n hs) (by simp [FV.value]) ht h65 h70 ?_
  intro rest
  have hr' : 0 ≤ n ∧ n < ((256 ^ k : Nat) : Int) := by simpa [intInRange] using hr
  have hlt : n.toNat < 256 ^ k := by omega
  have hn : ((n.toNat : Nat) : Int) = n := by omega
  rw [hdec, toNat_emod_of_range k n hr'.1 hr'.2, unpackU_beN k _ hlt rest]
  simp [bind, Except.bind, pure, Except.pure, hn]

theorem ok_int (tag : UInt8) (n : Int) (h : (FV.int tag n).WF) : Ok (.int tag n) := by
  have h' : ∃ k s, intShape tag = some (k, s) ∧ intInRange k s n ∧ (tag = 76 → 0 ≤ n) := by
    simpa [FV.WF] using h
  obtain ⟨k, s, hs, hr, _⟩ := h'
  rcases intShape_cases hs with ⟨rfl, rfl, rfl⟩ | ⟨rfl, rfl, rfl⟩ | ⟨rfl, rfl, rfl⟩ | ⟨rfl, rfl, rfl⟩ |
    ⟨rfl, rfl, rfl⟩ | ⟨rfl, rfl, rfl⟩ | ⟨rfl, rfl, rfl⟩ | ⟨rfl, rfl, rfl⟩
  · exact ok_int_signed 98 1 n Decode.shortShortInt hs (by omega) hr (by simp [Decode.tablePrim])
      (by decide) (by decide) (fun _ => rfl)
  · exact ok_int_unsigned 66 1 n Decode.shortShortUint hs hr (by simp [Decode.tablePrim])
      (by decide) (by decide) (fun _ => rfl)
  · exact ok_int_signed 115 2 n Decode.shortInt hs (by omega) hr (by simp [Decode.tablePrim])
      (by decide) (by decide) (fun _ => rfl)
  · exact ok_int_unsigned 117 2 n Decode.shortUint hs hr (by simp [Decode.tablePrim])
      (by decide) (by decide) (fun _ => rfl)
  · exact ok_int_signed 73 4 n Decode.longInt hs (by omega) hr (by simp [Decode.tablePrim])
      (by decide) (by decide) (fun _ => rfl)
  · exact ok_int_unsigned 105 4 n Decode.longUint hs hr (by simp [Decode.tablePrim])
      (by decide) (by decide) (fun _ => rfl)
  · exact ok_int_signed 108 8 n Decode.longLongInt hs (by omega) hr (by simp [Decode.tablePrim])
      (by decide) (by decide) (fun _ => rfl)
  · exact ok_int_signed 76 8 n Decode.longLongInt hs (by omega) hr (by simp [Decode.tablePrim])
      (by decide) (by decide) (fun _ => rfl)

theorem ok_f32 (b : Nat) (h : b < 2 ^ 32) : Ok (.f32 b) :=
  ok_of_prim (.f32 b) 102 (beN 4 b) Decode.floatingPoint (.float (f32Widen b)) (by simp [FV.wire])
    (by simp [FV.value]) (by simp [Decode.tablePrim]) (by decide) (by decide)
    (fun rest => by
      simp only [Decode.floatingPoint, takeExact_append 4 _ rest (beN_length 4 b),
        unbe_beN_of_lt 4 b (by simpa using h), bind, Except.bind, pure, Except.pure, beN_length])

theorem ok_f64 (b : Nat) (h : b < 2 ^ 64) : Ok (.f64 b) :=
  ok_of_prim (.f64 b) 100 (beN 8 b) Decode.double (.float b) (by simp [FV.wire])
    (by simp [FV.value]) (by simp [Decode.tablePrim]) (by decide) (by decide)
    (fun rest => by
      simp only [Decode.double, takeExact_append 8 _ rest (beN_length 8 b),
        unbe_beN_of_lt 8 b (by simpa using h), bind, Except.bind, pure, Except.pure, beN_length])

theorem ok_dec (s : Nat) (r : Int) (hs : s < 256) (h1 : -2147483648 ≤ r) (h2 : r ≤ 2147483647) :
    Ok (.dec s r) := by
  refine ok_of_prim (.dec s r) 68 (beN 1 s ++ beN 4 (r % (256 ^ 4 : Nat)).toNat) Decode.decimal
    (.decimal (r < 0) r.natAbs (-(s : Int))) (by simp [FV.wire]) (by simp [FV.value])
    (by simp [Decode.tablePrim]) (by decide) (by decide) ?_
  intro rest
  have d1 : unpackU 1 (beN 1 s ++ beN 4 (r % (256 ^ 4 : Nat)).toNat ++ rest) = .ok s := by
    rw [List.append_assoc]; exact unpackU_beN 1 s (by simpa using hs) _
  have d2 : (beN 1 s ++ beN 4 (r % (256 ^ 4 : Nat)).toNat ++ rest).drop 1 =
      beN 4 (r % (256 ^ 4 : Nat)).toNat ++ rest := by
    rw [List.append_assoc]; exact drop_beN_append 1 s _
  have d3 := unpackS_beN 4 (by omega) r (by simp; omega) (by simp; omega) rest
  simp only [Decode.decimal, d1, d2, d3, bind, Except.bind, pure, Except.pure]
  simp

theorem slice_prefix (a b r : Bytes) (n : Nat) (ha : a.length = n) :
    slice (a ++ (b ++ r)) n (b.length + n) = b := by
  subst ha
  simp [slice]

theorem ok_lstr (bs : Bytes) (h : bs.length < 2 ^ 32) (v : PyVal) (hv : (FV.lstr bs).value = some v) :
    Ok (.lstr bs) := by
  refine ok_of_prim (.lstr bs) 83 (beN 4 bs.length ++ bs) Decode.longStr v (by simp [FV.wire]) hv
    (by simp [Decode.tablePrim]) (by decide) (by decide) ?_
  intro rest
  have d1 : unpackU 4 (beN 4 bs.length ++ bs ++ rest) = .ok bs.length := by
    rw [List.append_assoc]; exact unpackU_beN 4 _ (by simpa using h) _
  have d2 : slice (beN 4 bs.length ++ bs ++ rest) 4 (bs.length + 4) = bs := by
    rw [List.append_assoc]; exact slice_prefix _ _ _ _ (beN_length _ _)
  simp only [Decode.longStr, d1, d2, bind, Except.bind, pure, Except.pure]
  simp only [FV.value] at hv
  cases hu : utf8Decode bs with
  | none => rw [hu] at hv; cases hv; simp; omega
  | some s => rw [hu] at hv; cases hv; simp; omega

theorem ok_bin (bs : Bytes) (h : bs.length < 2 ^ 32) : Ok (.bin bs) := by
  refine ok_of_prim (.bin bs) 120 (beN 4 bs.length ++ bs) Decode.byteArray (.bytearray bs) (by simp [FV.wire])
    (by simp [FV.value]) (by simp [Decode.tablePrim]) (by decide) (by decide) ?_
  intro rest
  have d1 : unpackU 4 (beN 4 bs.length ++ bs ++ rest) = .ok bs.length := by
    rw [List.append_assoc]; exact unpackU_beN 4 _ (by simpa using h) _
  have d2 : slice (beN 4 bs.length ++ bs ++ rest) 4 (bs.length + 4) = bs := by
    rw [List.append_assoc]; exact slice_prefix _ _ _ _ (beN_length _ _)
  simp only [Decode.byteArray, d1, d2, bind, Except.bind, pure, Except.pure]
  simp; omega

theorem ok_ts (n : Nat) (h : n < 2 ^ 64) (v : PyVal) (hv : (FV.ts n).value = some v) : Ok (.ts n) :=
  ok_of_prim (.ts n) 84 (beN 8 n) Decode.timestamp v (by simp [FV.wire]) hv
    (by simp [Decode.tablePrim]) (by decide) (by decide)
    (fun rest => by
      rw [timestamp_value n h v (by simpa [FV.value] using hv) rest]; simp)

theorem ok_void (tag : UInt8) (h : tag = 86 ∨ tag = 0) : Ok (.void tag) := by
  rcases h with rfl | rfl
  · exact ok_of_prim (.void 86) 86 [] Decode.void .none (by simp [FV.wire]) (by simp [FV.value])
      (by simp [Decode.tablePrim]) (by decide) (by decide) (fun rest => by simp [Decode.void])
  · exact ok_of_prim (.void 0) 0 [] Decode.void .none (by simp [FV.wire]) (by simp [FV.value])
      (by simp [Decode.tablePrim]) (by decide) (by decide) (fun rest => by simp [Decode.void])

/-! ## arrays -/

theorem drop_add_of_drop {value : Bytes} {offset : Nat} {a r : Bytes} (h : value.drop offset = a ++ r) :
    value.drop (offset + a.length) = r := by
  rw [← List.drop_drop, h]; simp

theorem arrLoop_step (f : Nat) (value : Bytes) (fin offset : Nat) (acc : List PyVal) (c : Nat) (v : PyVal)
    (hlt : offset < fin) (hc : c ≠ 0) (hemb : Decode.embedded f (value.drop offset) = .ok (c, v)) :
    Decode.arrLoop (f + 1) value fin offset acc = Decode.arrLoop f value fin (offset + c) (acc ++ [v]) := by
  rw [Decode.arrLoop]
  simp only [hlt, if_true, hemb, bind, Except.bind, hc, if_false]

theorem arrLoop_done (f : Nat) (value : Bytes) (fin offset : Nat) (acc : List PyVal) (h : ¬ offset < fin) :
    Decode.arrLoop (f + 1) value fin offset acc = .ok (offset, .list acc) := by
  rw [Decode.arrLoop]; simp only [h, if_false]

/-- loop invariant of `field_array` on the serialisation of a list of trees -/
def OkL (l : List FV) : Prop :=
  ∀ vs, valueL l = some vs → ∀ f value offset acc rest, value.drop offset = wireL l ++ rest →
    2 * (wireL l).length + 1 ≤ f →
    Decode.arrLoop f value (offset + (wireL l).length) offset acc =
      .ok (offset + (wireL l).length, .list (acc ++ vs))

theorem okL_nil : OkL [] := by
  intro vs hvs f value offset acc rest _ hf
  have : vs = [] := by simpa [valueL] using hvs.symm
  subst this
  cases f with
  | zero => omega
  | succ f => rw [arrLoop_done _ _ _ _ _ (by simp [wireL])]; simp [wireL]

theorem valueL_cons {x : FV} {xs : List FV} {vs : List PyVal} (h : valueL (x :: xs) = some vs) :
    ∃ a b, x.value = some a ∧ valueL xs = some b ∧ vs = a :: b := by
  simp only [valueL] at h
  cases ha : x.value with
  | none => simp [ha] at h
  | some a =>
    cases hb : valueL xs with
    | none => simp [ha, hb] at h
    | some b => refine ⟨a, b, rfl, rfl, ?_⟩; simpa [ha, hb] using h.symm

theorem okL_cons (x : FV) (xs : List FV) (hx : Ok x) (hxs : OkL xs) : OkL (x :: xs) := by
  intro vs hvs f value offset acc rest hdrop hf
  obtain ⟨a, b, ha, hb, rfl⟩ := valueL_cons hvs
  have hpos := wire_pos x
  simp only [wireL, List.length_append] at hdrop hf ⊢
  cases f with
  | zero => omega
  | succ f =>
    rw [List.append_assoc] at hdrop
    have e1 : Decode.embedded f (value.drop offset) = .ok (x.wire.length, a) := by
      rw [hdrop]; exact hx a ha f _ (by omega)
    rw [arrLoop_step f value _ offset acc x.wire.length a (by omega) (by omega) e1]
    have e2 := hxs b hb f value (offset + x.wire.length) (acc ++ [a]) rest (drop_add_of_drop hdrop) (by omega)
    rw [show offset + (x.wire.length + (wireL xs).length) = offset + x.wire.length + (wireL xs).length by omega, e2]
    simp

theorem fieldArray_ok (l : List FV) (hl : OkL l) (hsz : (wireL l).length < 2 ^ 32) (vs : List PyVal)
    (hvs : valueL l = some vs) (f : Nat) (rest : Bytes) (hf : 2 * (wireL l).length + 2 ≤ f) :
    Decode.fieldArray f (beN 4 (wireL l).length ++ wireL l ++ rest) = .ok (4 + (wireL l).length, .list vs) := by
  cases f with
  | zero => omega
  | succ f =>
    have d1 : unpackU 4 (beN 4 (wireL l).length ++ wireL l ++ rest) = .ok (wireL l).length := by
      rw [List.append_assoc]; exact unpackU_beN 4 _ (by simpa using hsz) _
    have d2 : (beN 4 (wireL l).length ++ wireL l ++ rest).drop 4 = wireL l ++ rest := by
      rw [List.append_assoc]; exact drop_beN_append 4 _ _
    have := hl vs hvs f _ 4 [] rest d2 (by omega)
    rw [Decode.fieldArray]
    simp only [d1, bind, Except.bind, this, List.nil_append]

theorem ok_arr (l : List FV) (hl : OkL l) (hsz : (wireL l).length < 2 ^ 32) : Ok (.arr l) := by
  intro v hv f rest hf
  have hw : (FV.arr l).wire = 65 :: (beN 4 (wireL l).length ++ wireL l) := by simp [FV.wire]
  have hv' : ∃ vs, valueL l = some vs ∧ v = .list vs := by
    simp only [FV.value] at hv
    cases h : valueL l with
    | none => simp [h] at hv
    | some vs => exact ⟨vs, rfl, by simpa [h] using hv.symm⟩
  obtain ⟨vs, hvs, rfl⟩ := hv'
  rw [hw] at hf ⊢
  simp only [List.length_cons, List.length_append, beN_length] at hf ⊢
  cases f with
  | zero => omega
  | succ f =>
    rw [List.cons_append, Decode.embedded]
    simp only [if_true, fieldArray_ok l hl hsz vs hvs f rest (by omega), bind, Except.bind, pure, Except.pure]

/-! ## tables -/

theorem tblLoop_step (f : Nat) (value : Bytes) (fin offset : Nat) (acc : List (Str × PyVal))
    (kl : UInt8) (kb tail : Bytes) (key : Str) (c : Nat) (v : PyVal)
    (hlt : offset < fin) (hdrop : value.drop offset = kl :: (kb ++ tail)) (hkl : kl.toNat = kb.length)
    (hkey : utf8Decode kb = some key) (hemb : Decode.embedded f tail = .ok (c, v)) :
    Decode.tblLoop (f + 1) value fin offset acc =
      Decode.tblLoop f value fin (offset + 1 + kb.length + c) (Decode.dictSet acc key v) := by
  have hd1 : value.drop (offset + 1) = kb ++ tail := by
    rw [← List.drop_drop, hdrop]; rfl
  have hs : slice value (offset + 1) (offset + 1 + kl.toNat) = kb := by
    rw [slice, hd1, hkl, Nat.add_sub_cancel_left]; simp
  have hd2 : value.drop (offset + 1 + kl.toNat) = tail := by
    rw [hkl]; exact drop_add_of_drop hd1
  rw [hkl] at hs hd2
  rw [Decode.tblLoop]
  simp only [hlt, if_true, hdrop, hkl, hs, hkey, hd2, hemb, bind, Except.bind]

theorem tblLoop_done (f : Nat) (value : Bytes) (fin offset : Nat) (acc : List (Str × PyVal))
    (h : ¬ offset < fin) : Decode.tblLoop (f + 1) value fin offset acc = .ok (offset, .dict acc) := by
  rw [Decode.tblLoop]; simp only [h, if_false]

/-- loop invariant of `field_table` on the serialisation of a list of entries -/
def OkE (l : List (Bytes × FV)) : Prop :=
  ∀ acc out, valueE l acc = some out → ∀ f value offset rest, value.drop offset = wireE l ++ rest →
    2 * (wireE l).length + 1 ≤ f →
    Decode.tblLoop f value (offset + (wireE l).length) offset acc =
      .ok (offset + (wireE l).length, .dict out)

theorem okE_nil : OkE [] := by
  intro acc out hout f value offset rest _ hf
  have : out = acc := by simpa [valueE] using hout.symm
  subst this
  cases f with
  | zero => omega
  | succ f => rw [tblLoop_done _ _ _ _ _ (by simp [wireE])]; simp [wireE]

theorem valueE_cons {k : Bytes} {x : FV} {es : List (Bytes × FV)} {acc out : List (Str × PyVal)}
    (h : valueE ((k, x) :: es) acc = some out) :
    ∃ name a, utf8Decode k = some name ∧ x.value = some a ∧ valueE es (Decode.dictSet acc name a) = some out := by
  simp only [valueE] at h
  cases hk : utf8Decode k with
  | none => simp [hk] at h
  | some name =>
    cases ha : x.value with
    | none => simp [hk, ha] at h
    | some a => exact ⟨name, a, rfl, rfl, by simpa [hk, ha] using h⟩

theorem ofNat_toNat_of_lt (n : Nat) (h : n < 256) : (UInt8.ofNat n).toNat = n := by
  simp only [UInt8.toNat_ofNat', Nat.reducePow]; omega

theorem okE_cons (k : Bytes) (x : FV) (es : List (Bytes × FV)) (hk : k.length < 256) (hx : Ok x)
    (hes : OkE es) : OkE ((k, x) :: es) := by
  intro acc out hout f value offset rest hdrop hf
  obtain ⟨name, a, hname, ha, hrest⟩ := valueE_cons hout
  have hpos := wire_pos x
  simp only [wireE, List.length_append, List.length_cons] at hdrop hf ⊢
  cases f with
  | zero => omega
  | succ f =>
    have hdrop' : value.drop offset = UInt8.ofNat k.length :: (k ++ (x.wire ++ (wireE es ++ rest))) := by
      rw [hdrop]; simp
    have e1 : Decode.embedded f (x.wire ++ (wireE es ++ rest)) = .ok (x.wire.length, a) :=
      hx a ha f _ (by omega)
    rw [tblLoop_step f value _ offset acc _ k _ name x.wire.length a (by omega) hdrop'
      (ofNat_toNat_of_lt _ hk) hname e1]
    have hdrop2 : value.drop (offset + 1 + k.length + x.wire.length) = wireE es ++ rest := by
      have h1 : value.drop (offset + 1) = k ++ (x.wire ++ (wireE es ++ rest)) := by
        rw [← List.drop_drop, hdrop']; rfl
      exact drop_add_of_drop (drop_add_of_drop h1)
    have e2 := hes _ out hrest f value (offset + 1 + k.length + x.wire.length) rest hdrop2 (by omega)
    rw [show offset + (k.length + 1 + (x.wire.length + (wireE es).length)) =
      offset + 1 + k.length + x.wire.length + (wireE es).length by omega, e2]

theorem fieldTable_ok (l : List (Bytes × FV)) (hl : OkE l) (hsz : (wireE l).length < 2 ^ 32)
    (out : List (Str × PyVal)) (hout : valueE l [] = some out) (f : Nat) (rest : Bytes)
    (hf : 2 * (wireE l).length + 2 ≤ f) :
    Decode.fieldTable f (beN 4 (wireE l).length ++ wireE l ++ rest) = .ok (4 + (wireE l).length, .dict out) := by
  cases f with
  | zero => omega
  | succ f =>
    have d1 : unpackU 4 (beN 4 (wireE l).length ++ wireE l ++ rest) = .ok (wireE l).length := by
      rw [List.append_assoc]; exact unpackU_beN 4 _ (by simpa using hsz) _
    have d2 : (beN 4 (wireE l).length ++ wireE l ++ rest).drop 4 = wireE l ++ rest := by
      rw [List.append_assoc]; exact drop_beN_append 4 _ _
    have := hl [] out hout f _ 4 rest d2 (by omega)
    rw [Decode.fieldTable]
    simp only [d1, bind, Except.bind, this]

theorem tbl_value {l : List (Bytes × FV)} {v : PyVal} (hv : (FV.tbl l).value = some v) :
    ∃ out, valueE l [] = some out ∧ v = .dict out := by
  simp only [FV.value] at hv
  cases h : valueE l [] with
  | none => simp [h] at hv
  | some out => exact ⟨out, rfl, by simpa [h] using hv.symm⟩

theorem ok_tbl (l : List (Bytes × FV)) (hl : OkE l) (hsz : (wireE l).length < 2 ^ 32) : Ok (.tbl l) := by
  intro v hv f rest hf
  have hw : (FV.tbl l).wire = 70 :: (beN 4 (wireE l).length ++ wireE l) := by simp [FV.wire]
  obtain ⟨out, hout, rfl⟩ := tbl_value hv
  rw [hw] at hf ⊢
  simp only [List.length_cons, List.length_append, beN_length] at hf ⊢
  cases f with
  | zero => omega
  | succ f =>
    rw [List.cons_append, Decode.embedded]
    have h65 : ¬ ((70 : UInt8) = 65) := by decide
    simp only [h65, if_true, if_false, fieldTable_ok l hl hsz out hout f rest (by omega), bind, Except.bind,
      pure, Except.pure]

/-! ## the induction over the tree -/

mutual
theorem ok_of_wf (fv : FV) (h : fv.WF) : Ok fv := by
  match fv, h with
  | .bool b, _ => exact ok_bool b
  | .int tag n, h => exact ok_int tag n h
  | .f32 b, h => exact ok_f32 b (by simpa [FV.WF] using h)
  | .f64 b, h => exact ok_f64 b (by simpa [FV.WF] using h)
  | .dec s r, h =>
    have h' : s < 256 ∧ -2147483648 ≤ r ∧ r ≤ 2147483647 := by simpa [FV.WF] using h
    exact ok_dec s r h'.1 h'.2.1 h'.2.2
  | .lstr bs, h =>
    have h' : bs.length < 2 ^ 32 := by simpa [FV.WF] using h
    exact fun v hv => ok_lstr bs h' v hv v hv
  | .arr l, h =>
    have h' : WFL l ∧ (wireL l).length < 2 ^ 32 := by simpa [FV.WF] using h
    exact ok_arr l (okL_of_wf l h'.1) h'.2
  | .ts n, h =>
    have h' : n < 2 ^ 64 := by simpa [FV.WF] using h
    exact fun v hv => ok_ts n h' v hv v hv
  | .tbl l, h =>
    have h' : WFE l ∧ (wireE l).length < 2 ^ 32 := by simpa [FV.WF] using h
    exact ok_tbl l (okE_of_wf l h'.1) h'.2
  | .void tag, h => exact ok_void tag (by simpa [FV.WF] using h)
  | .bin bs, h => exact ok_bin bs (by simpa [FV.WF] using h)
theorem okL_of_wf (l : List FV) (h : WFL l) : OkL l := by
  match l, h with
  | [], _ => exact okL_nil
  | x :: xs, h =>
    have h' : x.WF ∧ WFL xs := by simpa [WFL] using h
    exact okL_cons x xs (ok_of_wf x h'.1) (okL_of_wf xs h'.2)
theorem okE_of_wf (l : List (Bytes × FV)) (h : WFE l) : OkE l := by
  match l, h with
  | [], _ => exact okE_nil
  | (k, x) :: es, h =>
    have h' : k.length < 256 ∧ (utf8Decode k).isSome ∧ x.WF ∧ WFE es := by simpa [WFE] using h
    exact okE_cons k x es h'.1 (ok_of_wf x h'.2.2.1) (okE_of_wf es h'.2.2.2)
end

/-! ## the C05 statements about the model decoder -/

theorem decode_agrees_value (fv : FV) (hwf : fv.WF) (v : PyVal) (hv : fv.value = some v) (rest : Bytes) :
    Decode.embeddedValue (fv.wire ++ rest) = .ok (fv.wire.length, v) :=
  ok_of_wf fv hwf v hv _ rest (by simp [Decode.fuelFor]; omega)

theorem decode_agrees_table (l : List (Bytes × FV)) (hwf : (FV.tbl l).WF) (v : PyVal)
    (hv : (FV.tbl l).value = some v) (rest : Bytes) :
    Decode.fieldTableTop ((FV.tbl l).wire.drop 1 ++ rest) = .ok ((FV.tbl l).wire.length - 1, v) := by
  have h' : WFE l ∧ (wireE l).length < 2 ^ 32 := by simpa [FV.WF] using hwf
  obtain ⟨out, hout, rfl⟩ := tbl_value hv
  have hw : (FV.tbl l).wire = 70 :: (beN 4 (wireE l).length ++ wireE l) := by simp [FV.wire]
  rw [hw]
  simp only [List.drop_succ_cons, List.drop_zero, List.length_cons, List.length_append, beN_length,
    Nat.add_sub_cancel, Decode.fieldTableTop]
  rw [fieldTable_ok l (okE_of_wf l h'.1) h'.2 out hout _ rest (by simp [Decode.fuelFor]; omega)]

/-! ## the strict reference parser reads the serialisation back -/

def Par (fv : FV) : Prop :=
  ∀ f rest, 2 * fv.wire.length + 1 ≤ f → parseFV f (fv.wire ++ rest) = some (fv, rest)

def ParL (l : List FV) : Prop := ∀ f, 2 * (wireL l).length + 2 ≤ f → parseL f (wireL l) = some l

def ParE (l : List (Bytes × FV)) : Prop := ∀ f, 2 * (wireE l).length + 2 ≤ f → parseE f (wireE l) = some l

theorem take?_append (a r : Bytes) (n : Nat) (h : a.length = n) : take? n (a ++ r) = some (a, r) := by
  subst h; simp [take?]

theorem take?_beN (k n : Nat) (r : Bytes) : take? k (beN k n ++ r) = some (beN k n, r) :=
  take?_append _ _ _ (beN_length k n)

theorem signedOf_unbe (k : Nat) (bs : Bytes) (h : bs.length = k) : signedOf k (unbe bs) = unbeS bs := by
  simp [signedOf, unbeS, h]

theorem int_back (k : Nat) (s : Bool) (n : Int) (hk : 0 < k) (hr : intInRange k s n) :
    (if s then signedOf k (unbe (beN k (n % (256 ^ k : Nat)).toNat))
      else (unbe (beN k (n % (256 ^ k : Nat)).toNat) : Int)) = n := by
  cases s with
  | true =>
    have hr' : -((256 ^ k / 2 : Nat) : Int) ≤ n ∧ n < ((256 ^ k / 2 : Nat) : Int) := by
      simpa [intInRange] using hr
    simp only [if_true]
    rw [signedOf_unbe k _ (beN_length _ _)]
    exact unbeS_beN k hk n hr'.1 hr'.2
  | false =>
    have hr' : 0 ≤ n ∧ n < ((256 ^ k : Nat) : Int) := by simpa [intInRange] using hr
    have hlt : n.toNat < 256 ^ k := by omega
    simp only [Bool.false_eq_true, if_false]
    rw [toNat_emod_of_range k n hr'.1 hr'.2, unbe_beN_of_lt k _ hlt]
    omega

theorem parseFV_int (t : UInt8) (k : Nat) (s : Bool) (f : Nat) (r : Bytes) (hs : intShape t = some (k, s)) :
    parseFV (f + 1) (t :: r) =
      (take? k r).map (fun (a, r) => (.int t (if s then signedOf k (unbe a) else (unbe a : Int)), r)) := by
  rcases intShape_cases hs with ⟨rfl, rfl, rfl⟩ | ⟨rfl, rfl, rfl⟩ | ⟨rfl, rfl, rfl⟩ | ⟨rfl, rfl, rfl⟩ |
    ⟨rfl, rfl, rfl⟩ | ⟨rfl, rfl, rfl⟩ | ⟨rfl, rfl, rfl⟩ | ⟨rfl, rfl, rfl⟩ <;> simp [parseFV, intShape]

theorem par_int (tag : UInt8) (n : Int) (h : (FV.int tag n).WF) : Par (.int tag n) := by
  have h' : ∃ k s, intShape tag = some (k, s) ∧ intInRange k s n ∧ (tag = 76 → 0 ≤ n) := by
    simpa [FV.WF] using h
  obtain ⟨k, s, hs, hr, _⟩ := h'
  have hk : 0 < k := by
    rcases intShape_cases hs with ⟨_, rfl, _⟩ | ⟨_, rfl, _⟩ | ⟨_, rfl, _⟩ | ⟨_, rfl, _⟩ |
      ⟨_, rfl, _⟩ | ⟨_, rfl, _⟩ | ⟨_, rfl, _⟩ | ⟨_, rfl, _⟩ <;> omega
  intro f rest hf
  rw [int_wire tag k s n hs] at hf ⊢
  cases f with
  | zero => omega
  | succ f =>
    rw [List.cons_append, parseFV_int tag k s f _ hs, take?_beN]
    simp only [Option.map_some, int_back k s n hk hr]

theorem par_bool (b : Bool) : Par (.bool b) := by
  intro f rest hf
  cases f with
  | zero => omega
  | succ f => cases b <;> simp [FV.wire, parseFV]

theorem par_f32 (b : Nat) (h : b < 2 ^ 32) : Par (.f32 b) := by
  intro f rest hf
  cases f with
  | zero => omega
  | succ f =>
    have hw : (FV.f32 b).wire = 102 :: beN 4 b := by simp [FV.wire]
    rw [hw, List.cons_append]
    simp [parseFV, take?_beN, unbe_beN_of_lt 4 b (by simpa using h)]

theorem par_f64 (b : Nat) (h : b < 2 ^ 64) : Par (.f64 b) := by
  intro f rest hf
  cases f with
  | zero => omega
  | succ f =>
    have hw : (FV.f64 b).wire = 100 :: beN 8 b := by simp [FV.wire]
    rw [hw, List.cons_append]
    simp [parseFV, take?_beN, unbe_beN_of_lt 8 b (by simpa using h)]

theorem par_ts (n : Nat) (h : n < 2 ^ 64) : Par (.ts n) := by
  intro f rest hf
  cases f with
  | zero => omega
  | succ f =>
    have hw : (FV.ts n).wire = 84 :: beN 8 n := by simp [FV.wire]
    rw [hw, List.cons_append]
    simp [parseFV, take?_beN, unbe_beN_of_lt 8 n (by simpa using h)]

theorem par_dec (s : Nat) (r : Int) (hs : s < 256) (h1 : -2147483648 ≤ r) (h2 : r ≤ 2147483647) :
    Par (.dec s r) := by
  intro f rest hf
  cases f with
  | zero => omega
  | succ f =>
    have hw : (FV.dec s r).wire = 68 :: (beN 1 s ++ beN 4 (r % (256 ^ 4 : Nat)).toNat) := by simp [FV.wire]
    have hb := int_back 4 true r (by omega) (by simp [intInRange]; omega)
    simp only [if_true] at hb
    rw [hw, List.cons_append, List.append_assoc]
    simp [parseFV, take?_beN, unbe_beN_of_lt 1 s (by simpa using hs)]
    simpa using hb

theorem par_lstr (bs : Bytes) (h : bs.length < 2 ^ 32) : Par (.lstr bs) := by
  intro f rest hf
  cases f with
  | zero => omega
  | succ f =>
    have hw : (FV.lstr bs).wire = 83 :: (beN 4 bs.length ++ bs) := by simp [FV.wire]
    rw [hw, List.cons_append, List.append_assoc]
    simp [parseFV, take?_beN, unbe_beN_of_lt 4 bs.length (by simpa using h), take?_append bs rest _ rfl]

theorem par_bin (bs : Bytes) (h : bs.length < 2 ^ 32) : Par (.bin bs) := by
  intro f rest hf
  cases f with
  | zero => omega
  | succ f =>
    have hw : (FV.bin bs).wire = 120 :: (beN 4 bs.length ++ bs) := by simp [FV.wire]
    rw [hw, List.cons_append, List.append_assoc]
    simp [parseFV, take?_beN, unbe_beN_of_lt 4 bs.length (by simpa using h), take?_append bs rest _ rfl]

theorem par_void (tag : UInt8) (h : tag = 86 ∨ tag = 0) : Par (.void tag) := by
  intro f rest hf
  cases f with
  | zero => omega
  | succ f => rcases h with rfl | rfl <;> simp [FV.wire, parseFV]

theorem par_arr (l : List FV) (hl : ParL l) (hsz : (wireL l).length < 2 ^ 32) : Par (.arr l) := by
  intro f rest hf
  have hw : (FV.arr l).wire = 65 :: (beN 4 (wireL l).length ++ wireL l) := by simp [FV.wire]
  rw [hw] at hf ⊢
  simp only [List.length_cons, List.length_append, beN_length] at hf
  cases f with
  | zero => omega
  | succ f =>
    rw [List.cons_append, List.append_assoc]
    simp [parseFV, take?_beN, unbe_beN_of_lt 4 _ (show (wireL l).length < 256 ^ 4 by simpa using hsz),
      take?_append (wireL l) rest _ rfl, hl f (by omega)]

theorem par_tbl (l : List (Bytes × FV)) (hl : ParE l) (hsz : (wireE l).length < 2 ^ 32) : Par (.tbl l) := by
  intro f rest hf
  have hw : (FV.tbl l).wire = 70 :: (beN 4 (wireE l).length ++ wireE l) := by simp [FV.wire]
  rw [hw] at hf ⊢
  simp only [List.length_cons, List.length_append, beN_length] at hf
  cases f with
  | zero => omega
  | succ f =>
    rw [List.cons_append, List.append_assoc]
    simp [parseFV, take?_beN, unbe_beN_of_lt 4 _ (show (wireE l).length < 256 ^ 4 by simpa using hsz),
      take?_append (wireE l) rest _ rfl, hl f (by omega)]

theorem parL_nil : ParL [] := by
  intro f _
  cases f <;> simp [wireL, parseL]

theorem parL_cons (x : FV) (xs : List FV) (hx : Par x) (hxs : ParL xs) : ParL (x :: xs) := by
  intro f hf
  have hpos := wire_pos x
  simp only [wireL, List.length_append] at hf ⊢
  cases f with
  | zero => omega
  | succ f =>
    have hne : x.wire ++ wireL xs ≠ [] := by
      intro h; have := congrArg List.length h; simp only [List.length_append, List.length_nil] at this; omega
    have e1 := hx f (wireL xs) (by omega)
    have e2 := hxs f (by omega)
    cases hb : x.wire ++ wireL xs with
    | nil => exact absurd hb hne
    | cons b bs =>
      rw [hb] at e1
      simp only [parseL, e1, e2, Option.map_some]

theorem parE_nil : ParE [] := by
  intro f _
  cases f <;> simp [wireE, parseE]

theorem parE_cons (k : Bytes) (x : FV) (es : List (Bytes × FV)) (hk : k.length < 256)
    (hu : (utf8Decode k).isSome) (hx : Par x) (hes : ParE es) : ParE ((k, x) :: es) := by
  intro f hf
  have hpos := wire_pos x
  simp only [wireE, List.length_append, List.length_cons] at hf ⊢
  cases f with
  | zero => omega
  | succ f =>
    have e1 := hx f (wireE es) (by omega)
    have e2 := hes f (by omega)
    have e0 : take? (UInt8.ofNat k.length).toNat (k ++ (x.wire ++ wireE es)) = some (k, x.wire ++ wireE es) :=
      take?_append _ _ _ (ofNat_toNat_of_lt _ hk).symm
    simp only [List.cons_append, parseE, e0, hu, if_true, e1, e2, Option.map_some]

mutual
theorem par_of_wf (fv : FV) (h : fv.WF) : Par fv := by
  match fv, h with
  | .bool b, _ => exact par_bool b
  | .int tag n, h => exact par_int tag n h
  | .f32 b, h => exact par_f32 b (by simpa [FV.WF] using h)
  | .f64 b, h => exact par_f64 b (by simpa [FV.WF] using h)
  | .dec s r, h =>
    have h' : s < 256 ∧ -2147483648 ≤ r ∧ r ≤ 2147483647 := by simpa [FV.WF] using h
    exact par_dec s r h'.1 h'.2.1 h'.2.2
  | .lstr bs, h => exact par_lstr bs (by simpa [FV.WF] using h)
  | .arr l, h =>
    have h' : WFL l ∧ (wireL l).length < 2 ^ 32 := by simpa [FV.WF] using h
    exact par_arr l (parL_of_wf l h'.1) h'.2
  | .ts n, h => exact par_ts n (by simpa [FV.WF] using h)
  | .tbl l, h =>
    have h' : WFE l ∧ (wireE l).length < 2 ^ 32 := by simpa [FV.WF] using h
    exact par_tbl l (parE_of_wf l h'.1) h'.2
  | .void tag, h => exact par_void tag (by simpa [FV.WF] using h)
  | .bin bs, h => exact par_bin bs (by simpa [FV.WF] using h)
theorem parL_of_wf (l : List FV) (h : WFL l) : ParL l := by
  match l, h with
  | [], _ => exact parL_nil
  | x :: xs, h =>
    have h' : x.WF ∧ WFL xs := by simpa [WFL] using h
    exact parL_cons x xs (par_of_wf x h'.1) (parL_of_wf xs h'.2)
theorem parE_of_wf (l : List (Bytes × FV)) (h : WFE l) : ParE l := by
  match l, h with
  | [], _ => exact parE_nil
  | (k, x) :: es, h =>
    have h' : k.length < 256 ∧ (utf8Decode k).isSome ∧ x.WF ∧ WFE es := by simpa [WFE] using h
    exact parE_cons k x es h'.1 h'.2.1 (par_of_wf x h'.2.2.1) (parE_of_wf es h'.2.2.2)
end

theorem parse_wire (fv : FV) (hwf : fv.WF) (rest : Bytes) (f : Nat) (hf : 2 * fv.wire.length + 1 ≤ f) :
    parseFV f (fv.wire ++ rest) = some (fv, rest) :=
  par_of_wf fv hwf f rest hf

end Pamqp.Proofs.Grammar
