import Pamqp.Spec.Defs
import Pamqp.Proofs.Bytes
import Pamqp.Proofs.ByType
import Pamqp.Proofs.EnvelopeLemma
/-!
# Basic.Properties: the flag word and the slot loops of `marshal` / `unmarshal` (C02)
-/
namespace Pamqp.Proofs
open Pamqp

/-! ## the "sign problem" of the flag word -/

theorem add_eq_or_of_and_eq_zero (a b n : Nat) (ha : a < 2 ^ n) (hb : b < 2 ^ n)
    (h : a &&& b = 0) : a + b = a ||| b := by
  have ha' : a < 2 ^ (n + 1) := by rw [Nat.pow_succ]; omega
  have hb' : b < 2 ^ (n + 1) := by rw [Nat.pow_succ]; omega
  have hab : a + b < 2 ^ (n + 1) := by rw [Nat.pow_succ]; omega
  have h1 := BitVec.add_eq_or_of_and_eq_zero (BitVec.ofNat (n + 1) a) (BitVec.ofNat (n + 1) b)
    (by apply BitVec.eq_of_toNat_eq
        simp only [BitVec.toNat_and, BitVec.toNat_ofNat, Nat.mod_eq_of_lt ha', Nat.mod_eq_of_lt hb', h,
          Nat.zero_mod])
  have h2 := congrArg BitVec.toNat h1
  simp only [BitVec.toNat_add, BitVec.toNat_or, BitVec.toNat_ofNat, Nat.mod_eq_of_lt ha',
    Nat.mod_eq_of_lt hb', Nat.mod_eq_of_lt hab] at h2
  exact h2

theorem and_compl16 (u m : Nat) (hu : u < 65536) (hm : m < 65536) :
    m - (m &&& (65535 - u)) = u &&& m := by
  have h16 : (65536 : Nat) = 2 ^ 16 := by decide
  have hc : 65535 - u = 2 ^ 16 - (u + 1) := by omega
  have hbit : ∀ i, (65535 - u).testBit i = (decide (i < 16) && !u.testBit i) := by
    intro i; rw [hc]; exact Nat.testBit_two_pow_sub_succ (by omega) i
  have hmbit : ∀ i, 16 ≤ i → m.testBit i = false := by
    intro i hi
    exact Nat.testBit_lt_two_pow (Nat.lt_of_lt_of_le (h16 ▸ hm) (Nat.pow_le_pow_right (by omega) hi))
  have hdisj : (m &&& (65535 - u)) &&& (u &&& m) = 0 := by
    apply Nat.eq_of_testBit_eq; intro i
    simp only [Nat.testBit_and, hbit, Nat.zero_testBit]
    cases u.testBit i <;> simp
  have hor : (m &&& (65535 - u)) ||| (u &&& m) = m := by
    apply Nat.eq_of_testBit_eq; intro i
    simp only [Nat.testBit_and, Nat.testBit_or, hbit]
    by_cases hi : i < 16
    · simp only [hi, decide_true, Bool.true_and]
      cases u.testBit i <;> cases m.testBit i <;> rfl
    · rw [hmbit i (by omega)]; simp
  have hlt1 : m &&& (65535 - u) < 2 ^ 16 := Nat.lt_of_le_of_lt Nat.and_le_left (h16 ▸ hm)
  have hlt2 : u &&& m < 2 ^ 16 := Nat.lt_of_le_of_lt Nat.and_le_right (h16 ▸ hm)
  have := add_eq_or_of_and_eq_zero _ _ 16 hlt1 hlt2 hdisj
  omega

theorem signed_flag_word (u m : Nat) (hu : u < 65536) (hm : m < 65536) :
    pyAndMask (unbeS (beN 2 u)) m = u &&& m := by
  have hun : unbe (beN 2 u) = u := unbe_beN_of_lt 2 u (by omega)
  unfold unbeS
  simp only [hun, beN_length]
  by_cases h : 2 * u ≥ 256 ^ 2
  · rw [if_pos h]
    have : ((u : Int) - ((256 ^ 2 : Nat) : Int)) = Int.negSucc (65535 - u) := by omega
    rw [this]
    simp only [pyAndMask]
    exact and_compl16 u m hu hm
  · rw [if_neg h]; rfl

/-- a single-bit mask sees exactly that bit -/
theorem and_two_pow_ne_zero (x k : Nat) : ((x &&& 2 ^ k) != 0) = x.testBit k := by
  have : x &&& 2 ^ k = if x.testBit k then 2 ^ k else 0 := by
    apply Nat.eq_of_testBit_eq; intro i
    rw [Nat.testBit_and, Nat.testBit_two_pow]
    by_cases hi : k = i
    · subst hi
      cases h : x.testBit k <;> simp [Nat.testBit_two_pow_self]
    · cases h : x.testBit k <;> simp [hi]
  rw [this]
  cases h : x.testBit k
  · simp
  · simp

/-! ## the accumulated flags -/

/-- OR of the flags of the set slots (what the first pass of `marshal` accumulates) -/
def setFlags : List (PropSpec × PyVal) → Nat
  | [] => 0
  | (p, v) :: rest => if Base.isSet v then setFlags rest ||| p.flag else setFlags rest

/-- every slot's flag is a single bit within 15..2 -/
def FlagsIn (l : List (PropSpec × PyVal)) : Prop :=
  ∀ pv ∈ l, ∃ k, 2 ≤ k ∧ k ≤ 15 ∧ pv.1.flag = 2 ^ k

theorem FlagsIn.tail {pv : PropSpec × PyVal} {l} (h : FlagsIn (pv :: l)) : FlagsIn l :=
  fun q hq => h q (List.mem_cons_of_mem _ hq)

theorem setFlags_bits (l : List (PropSpec × PyVal)) (h : FlagsIn l) (i : Nat)
    (hi : (setFlags l).testBit i = true) : 2 ≤ i ∧ i ≤ 15 := by
  induction l with
  | nil => simp [setFlags] at hi
  | cons pv l ih =>
    obtain ⟨p, v⟩ := pv
    simp only [setFlags] at hi
    split at hi
    · rw [Nat.testBit_or, Bool.or_eq_true] at hi
      rcases hi with hi | hi
      · exact ih h.tail hi
      · obtain ⟨k, hk2, hk15, hk⟩ := h (p, v) List.mem_cons_self
        simp only at hk
        rw [hk, Nat.testBit_two_pow] at hi
        have : k = i := by simpa using hi
        omega
    · exact ih h.tail hi

theorem setFlags_lt (l : List (PropSpec × PyVal)) (h : FlagsIn l) : setFlags l < 65536 := by
  have : setFlags l < 2 ^ 16 := by
    apply Nat.lt_pow_two_of_testBit
    intro i hi
    cases hb : (setFlags l).testBit i
    · rfl
    · have := setFlags_bits l h i hb; omega
  simpa using this

theorem setFlags_even (l : List (PropSpec × PyVal)) (h : FlagsIn l) : setFlags l % 2 = 0 := by
  cases hb : (setFlags l).testBit 0
  · rw [Nat.testBit_zero] at hb
    have : ¬ (setFlags l % 2 = 1) := by simpa using hb
    omega
  · have := setFlags_bits l h 0 hb; omega

theorem setFlags_and_mask (l : List (PropSpec × PyVal)) (h : FlagsIn l) :
    setFlags l &&& 0xFFFE = setFlags l := by
  apply Nat.eq_of_testBit_eq; intro i
  rw [Nat.testBit_and]
  cases hb : (setFlags l).testBit i
  · rfl
  · have hr := setFlags_bits l h i hb
    have h1 : (0xFFFE : Nat) = 2 ^ 16 - (1 + 1) := by decide
    rw [h1, Nat.testBit_two_pow_sub_succ (by decide)]
    have : (1 : Nat).testBit i = false := by
      apply Nat.testBit_lt_two_pow
      calc 1 < 2 ^ 1 := by decide
        _ ≤ 2 ^ i := Nat.pow_le_pow_right (by omega) (by omega)
    simp [this]; omega

theorem setFlags_absent (l : List (PropSpec × PyVal)) (h : FlagsIn l) (k : Nat)
    (hk : 2 ^ k ∉ l.map (·.1.flag)) : (setFlags l).testBit k = false := by
  induction l with
  | nil => simp [setFlags]
  | cons pv l ih =>
    obtain ⟨p, v⟩ := pv
    simp only [List.map_cons, List.mem_cons, not_or] at hk
    have ih' := ih h.tail hk.2
    simp only [setFlags]
    split
    · rw [Nat.testBit_or, ih', Bool.false_or]
      obtain ⟨j, _, _, hj⟩ := h (p, v) List.mem_cons_self
      simp only at hj
      rw [hj, Nat.testBit_two_pow]
      have : j ≠ k := by
        intro e; apply hk.1; rw [hj, e]
      simp [this]
    · exact ih'

/-- distinct single-bit flags: bit `k` of the accumulated flags is set iff the slot owning `2^k`
is set -/
theorem setFlags_testBit (l : List (PropSpec × PyVal)) (h : FlagsIn l)
    (hnd : (l.map (·.1.flag)).Nodup) (pv : PropSpec × PyVal) (hm : pv ∈ l) (k : Nat)
    (hk : pv.1.flag = 2 ^ k) : (setFlags l).testBit k = Base.isSet pv.2 := by
  induction l with
  | nil => cases hm
  | cons q l ih =>
    obtain ⟨p, v⟩ := q
    simp only [List.map_cons, List.nodup_cons] at hnd
    rcases List.mem_cons.1 hm with rfl | hm'
    · simp only at hk
      have habs := setFlags_absent l h.tail k (hk ▸ hnd.1)
      simp only [setFlags]
      split
      · rename_i hs
        rw [Nat.testBit_or, habs, hk, Nat.testBit_two_pow_self, hs]; rfl
      · rename_i hs
        rw [habs]; simp at hs; rw [hs]
    · have ih' := ih h.tail hnd.2 hm'
      simp only [setFlags]
      split
      · rw [Nat.testBit_or, ih']
        obtain ⟨j, _, _, hj⟩ := h (p, v) List.mem_cons_self
        simp only at hj
        have : j ≠ k := by
          intro e; apply hnd.1
          rw [hj, e, ← hk]
          exact List.mem_map.2 ⟨pv, hm', rfl⟩
        rw [hj, Nat.testBit_two_pow]
        simp [this]
      · exact ih'

/-- the decoder's presence test on the signed flag word agrees with `isSet` -/
theorem flag_test (l : List (PropSpec × PyVal)) (h : FlagsIn l)
    (hnd : (l.map (·.1.flag)).Nodup) (pv : PropSpec × PyVal) (hm : pv ∈ l) :
    (pyAndMask (unbeS (beN 2 (setFlags l))) pv.1.flag != 0) = Base.isSet pv.2 := by
  obtain ⟨k, hk2, hk15, hk⟩ := h pv hm
  have hlt : pv.1.flag < 65536 := by
    rw [hk]
    calc 2 ^ k ≤ 2 ^ 15 := Nat.pow_le_pow_right (by omega) hk15
      _ < 65536 := by decide
  rw [signed_flag_word _ _ (setFlags_lt l h) hlt, hk, and_two_pow_ne_zero]
  exact setFlags_testBit l h hnd pv hm k hk

/-! ## the two slot loops -/

/-- pairs each slot with its own constructor default -/
def withDefaults (l : List (PropSpec × PyVal)) : List (PropSpec × PyVal) :=
  l.map (fun pv => (pv.1, Base.litVal pv.1.default))

theorem props_loop (legacy : Bool) (l : List (PropSpec × PyVal))
    (hty : ∀ pv ∈ l, pv.1.ty ≠ .bit) (hok : Spec.propsOK legacy l) :
    ∃ parts, Base.propParts legacy l = .ok (setFlags l, parts) ∧
      parts.length = Spec.propsSizeBound legacy l ∧
      ∀ (F : Int) (rest : Bytes),
        (∀ pv ∈ l, (pyAndMask F pv.1.flag != 0) = Base.isSet pv.2) →
        Base.propsUnmarshal F (parts ++ rest) (withDefaults l) = .ok (Spec.expectedProps l) := by
  induction l with
  | nil =>
    refine ⟨[], rfl, rfl, ?_⟩
    intro F rest _
    simp [withDefaults, Base.propsUnmarshal, Spec.expectedProps]
  | cons pv l ih =>
    obtain ⟨p, v⟩ := pv
    obtain ⟨parts, hparts, hlen, hdec⟩ :=
      ih (fun q hq => hty q (List.mem_cons_of_mem _ hq)) hok.2
    cases hs : Base.isSet v
    · refine ⟨parts, ?_, ?_, ?_⟩
      · simp only [Base.propParts, hs, Bool.false_eq_true, if_false, setFlags, hparts]
      · simp only [Spec.propsSizeBound, hs, Bool.false_eq_true, if_false, hlen, Nat.zero_add]
      · intro F rest hF
        have hFp := hF (p, v) List.mem_cons_self
        simp only [hs] at hFp
        have hrec := hdec F rest (fun q hq => hF q (List.mem_cons_of_mem _ hq))
        simp only [withDefaults, List.map_cons] at hrec ⊢
        simp only [Base.propsUnmarshal, hFp, Bool.false_eq_true, if_false, hrec, bind, Except.bind,
          pure, Except.pure, Spec.expectedProps, hs]
    · have hargok : Spec.argOK legacy p.ty v := by
        rcases hok.1 with h | h
        · rw [hs] at h; cases h
        · exact h
      have hpty : p.ty ≠ .bit := hty (p, v) List.mem_cons_self
      obtain ⟨e, henc, helen, _⟩ := byType_roundtrip legacy p.ty v hpty hargok [] 0
      refine ⟨e ++ parts, ?_, ?_, ?_⟩
      · simp only [Base.propParts, hs, if_true, setFlags, henc, hparts, bind, Except.bind, pure,
          Except.pure]
      · simp only [Spec.propsSizeBound, hs, if_true, List.length_append, helen, hlen]
      · intro F rest hF
        have hFp := hF (p, v) List.mem_cons_self
        simp only [hs] at hFp
        have hrec := hdec F rest (fun q hq => hF q (List.mem_cons_of_mem _ hq))
        obtain ⟨e', henc', _, hdec'⟩ := byType_roundtrip legacy p.ty v hpty hargok (parts ++ rest) 0
        have he : e' = e := by rw [henc] at henc'; cases henc'; rfl
        subst he
        simp only [withDefaults, List.map_cons] at hrec ⊢
        simp only [Base.propsUnmarshal, hFp, if_true, List.append_assoc, hdec', bind, Except.bind,
          pure, Except.pure, List.drop_left, hrec, Spec.expectedProps, hs]

theorem zip_defaults (props : List PropSpec) (vals : List PyVal) (hlen : vals.length = props.length) :
    props.zip (props.map (fun p => Base.litVal p.default)) = withDefaults (props.zip vals) := by
  induction props generalizing vals with
  | nil => simp [withDefaults]
  | cons p ps ih =>
    cases vals with
    | nil => simp at hlen
    | cons v vs =>
      simp only [List.length_cons, Nat.add_right_cancel_iff] at hlen
      have := ih vs hlen
      simp only [withDefaults, List.map_cons, List.zip_cons_cons, List.cons.injEq, true_and] at this ⊢
      exact this

/-! ## flag words -/

theorem beN_two (n : Nat) : beN 2 n = [UInt8.ofNat (n / 256 % 256), UInt8.ofNat (n % 256)] := by
  simp [beN]

theorem flagWords_single (u : Nat) (hu : u < 65536) (hmask : u &&& 0xFFFE = u) :
    Base.flagWords (u + 1) u = .ok (beN 2 u) := by
  have hr : u >>> 16 = 0 := by
    rw [Nat.shiftRight_eq_div_pow]; exact Nat.div_eq_of_lt (by omega)
  have hp : packU16 (u : Int) = .ok (beN 2 u) := packInt_nat 2 65535 u (by omega) (by omega)
  simp only [Base.flagWords, hr, hmask, bne_self_eq_false, Bool.false_eq_true, if_false, hp,
    beq_self_eq_true, if_true, bind, Except.bind, pure, Except.pure]

theorem pyOr_zero_shl_zero (p : Int) : pyOr 0 (pyShl p 0) = p := by
  have : pyShl p 0 = p := by simp [pyShl]
  rw [this]
  cases p with
  | ofNat b => show Int.ofNat (0 ||| b) = Int.ofNat b; rw [Nat.zero_or]
  | negSucc b => show Int.negSucc (b - (b &&& 0)) = Int.negSucc b; simp

theorem getFlags_single (u : Nat) (hu : u < 65536) (heven : u % 2 = 0) (r : Bytes) :
    Frame.getFlags (beN 2 u ++ r) 0 0 0 = .ok (2, unbeS (beN 2 u)) := by
  have h1 : pyAndMask (unbeS (beN 2 u)) 1 = 0 := by
    rw [signed_flag_word u 1 hu (by omega), Nat.and_one_is_mod, heven]
  rw [beN_two] at h1 ⊢
  simp only [List.cons_append, List.nil_append, Frame.getFlags, h1, beq_self_eq_true, if_true,
    Nat.zero_mul, pyOr_zero_shl_zero, Nat.zero_add]

/-! ## the content header -/

theorem flagsWF_elim (props : List PropSpec) (hwf : Spec.flagsWF props = true) :
    (∀ p ∈ props, (∃ k, 2 ≤ k ∧ k ≤ 15 ∧ p.flag = 2 ^ k) ∧ p.ty ≠ .bit) ∧
      (props.map (·.flag)).Nodup := by
  simp only [Spec.flagsWF, Bool.and_eq_true, List.all_eq_true, decide_eq_true_eq] at hwf
  refine ⟨?_, hwf.2⟩
  intro p hp
  obtain ⟨⟨h1, h2⟩, _⟩ := hwf.1 p hp
  refine ⟨?_, by simpa using h2⟩
  simp only [Spec.isPow2In, List.any_eq_true, List.mem_range, beq_iff_eq] at h1
  obtain ⟨i, hi, hf⟩ := h1
  exact ⟨2 + i, by omega, by omega, hf⟩

/-- `ContentHeader.marshal()` and `ContentHeader.unmarshal()` on the payload -/
theorem header_payload_roundtrip (cat : Cat) (hwf : Spec.flagsWF cat.props = true)
    (hcls : cat.basicClassId < 65536) (legacy : Bool)
    (vals : List PyVal) (hlen : vals.length = cat.props.length)
    (hok : Spec.propsOK legacy (cat.props.zip vals))
    (size : Nat) (hsize : size < 2 ^ 64) :
    ∃ payload, Frame.headerPayload legacy cat (.int size) vals = .ok payload ∧
      payload.length = Spec.propsSizeBound legacy (cat.props.zip vals) + 14 ∧
      Frame.headerUnmarshal cat payload =
        .ok (.header (.int cat.basicClassId) (.int 0) (.int size)
              (Spec.expectedProps (cat.props.zip vals))) := by
  obtain ⟨hall, hnd⟩ := flagsWF_elim cat.props hwf
  let l := cat.props.zip vals
  have hin : FlagsIn l := fun pv hm => (hall pv.1 (List.of_mem_zip (a := pv.1) (b := pv.2) hm).1).1
  have hty : ∀ pv ∈ l, pv.1.ty ≠ .bit :=
    fun pv hm => (hall pv.1 (List.of_mem_zip (a := pv.1) (b := pv.2) hm).1).2
  have hnd' : (l.map (·.1.flag)).Nodup := by
    have : l.map (·.1.flag) = (l.map Prod.fst).map (·.flag) := by simp
    rw [this, List.map_fst_zip (by omega)]
    exact hnd
  obtain ⟨parts, hparts, hplen, hdec⟩ := props_loop legacy l hty hok
  have hflt := setFlags_lt l hin
  have hfw := flagWords_single (setFlags l) hflt (setFlags_and_mask l hin)
  have hc : packU16 (cat.basicClassId : Int) = .ok (beN 2 cat.basicClassId) :=
    packInt_nat 2 65535 _ (by omega) (by omega)
  have hs : packU64 (size : Int) = .ok (beN 8 size) :=
    packInt_nat 8 18446744073709551615 _ (by omega) (by omega)
  refine ⟨beN 2 cat.basicClassId ++ [0, 0] ++ beN 8 size ++ (beN 2 (setFlags l) ++ parts), ?_, ?_, ?_⟩
  · simp only [Frame.headerPayload, hc, PyVal.asInt?, hs, Base.propsMarshal, hparts, hfw, bind, Except.bind,
      pure, Except.pure, l]
  · simp only [List.length_append, beN_length, List.length_cons, List.length_nil, hplen, l]; omega
  · have hhd : takeExact 12 (beN 2 cat.basicClassId ++ [0, 0] ++ beN 8 size ++ (beN 2 (setFlags l) ++ parts)) =
        .ok (beN 2 cat.basicClassId ++ [0, 0] ++ beN 8 size) :=
      takeExact_append 12 _ _ (by simp)
    have hdrop12 : (beN 2 cat.basicClassId ++ [0, 0] ++ beN 8 size ++ (beN 2 (setFlags l) ++ parts)).drop 12 =
        beN 2 (setFlags l) ++ parts := by
      apply List.drop_left' ; simp
    have hdrop14 : (beN 2 cat.basicClassId ++ [0, 0] ++ beN 8 size ++ (beN 2 (setFlags l) ++ parts)).drop (12 + 2) =
        parts ++ [] := by
      rw [← List.drop_drop, hdrop12, List.append_nil]
      apply List.drop_left'; simp
    have hs1 : slice (beN 2 cat.basicClassId ++ [0, 0] ++ beN 8 size) 0 2 = beN 2 cat.basicClassId := by
      simp [slice, List.append_assoc]
    have hs2 : slice (beN 2 cat.basicClassId ++ [0, 0] ++ beN 8 size) 2 4 = [0, 0] := by
      have := slice_append_mid (beN 2 cat.basicClassId) [0, 0] (beN 8 size)
      simpa using this
    have hs3 : slice (beN 2 cat.basicClassId ++ [0, 0] ++ beN 8 size) 4 12 = beN 8 size := by
      have := slice_append_mid (beN 2 cat.basicClassId ++ [0, 0]) (beN 8 size) []
      simpa using this
    have hgf := getFlags_single (setFlags l) hflt (setFlags_even l hin) parts
    have hprops := hdec (unbeS (beN 2 (setFlags l))) [] (fun pv hm => flag_test l hin hnd' pv hm)
    have hz : Frame.propDefaults cat = cat.props.map (fun p => Base.litVal p.default) := rfl
    rw [← zip_defaults cat.props vals hlen, ← hz] at hprops
    have hu0 : unbe ([0, 0] : Bytes) = 0 := by decide
    simp only [Frame.headerUnmarshal, hhd, hdrop12, hgf, hdrop14, hprops, hs1, hs2, hs3, hu0,
      unbe_beN_of_lt 2 _ (show cat.basicClassId < 256 ^ 2 by omega),
      unbe_beN_of_lt 8 _ (show size < 256 ^ 8 by omega), bind, Except.bind, pure, Except.pure]
    rfl

/-- C02, generic in the property table -/
theorem header_frame_roundtrip (cat : Cat) (hwf : Spec.flagsWF cat.props = true)
    (hcls : cat.basicClassId < 65536) (legacy : Bool)
    (vals : List PyVal) (hlen : vals.length = cat.props.length)
    (hok : Spec.propsOK legacy (cat.props.zip vals))
    (hsz : Spec.propsSizeBound legacy (cat.props.zip vals) + 14 < 2 ^ 32)
    (size : Nat) (hsize : size < 2 ^ 64) (cls weight : PyVal)
    (ch : Nat) (hc : ch < 65536) (rest : Bytes) :
    ∃ bs, Frame.marshal legacy cat (.header cls weight (.int size) vals) (.int ch) = .ok bs ∧
      Frame.unmarshal cat (bs ++ rest) =
        .ok (bs.length, ch, .header (.int cat.basicClassId) (.int 0) (.int size)
              (Spec.expectedProps (cat.props.zip vals))) := by
  obtain ⟨payload, hpay, hplen, hun⟩ :=
    header_payload_roundtrip cat hwf hcls legacy vals hlen hok size hsize
  have hl : payload.length < 2 ^ 32 := by omega
  have hne : payload ≠ [] := by
    intro e; rw [e] at hplen; simp at hplen
  refine ⟨envBytes 2 ch payload, ?_, ?_⟩
  · simp only [Frame.marshal, hpay, bind, Except.bind, envelope_ok 2 ch hc payload hl]
  · rw [unmarshal_envelope cat 2 (Or.inr (Or.inl rfl)) ch hc payload hne hl rest, envBytes_length, hun]
    simp [Frame.mapCaught, bind, Except.bind, pure, Except.pure]

end Pamqp.Proofs
