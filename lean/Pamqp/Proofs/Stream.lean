import Pamqp.Spec.Defs
import Pamqp.Proofs.Envelope
import Pamqp.Proofs.ArgLoop
/-!
# Proofs.Stream — the generic stream theorem (`decodeAll_stream` / `decodeAll_step`) instantiated with
frames the encoder produces: accepted method frames (C01), body frames incl. empty ones (C18/C20),
heartbeats (C18).

The `Item` type of `Props/C06Stream.lean` lives in a file that imports this one, so the lemmas here are
stated over an abstract item type `ι` with a frame function `fr : ι → AnyFrame × PyVal` and a decoded
function `dec : ι → Nat × AnyFrame`.
-/
namespace Pamqp.Proofs
open Pamqp

/-- a byte string on which `Frame.unmarshal` succeeds is not empty -/
theorem unmarshal_ok_ne_nil (cat : Cat) (bs : Bytes) (n ch : Nat) (f : AnyFrame)
    (h : Frame.unmarshal cat bs = .ok (n, ch, f)) : bs ≠ [] := by
  intro hnil
  rcases unmarshal_ok_envelope cat bs n ch f h with ⟨_, _, _, _, h8⟩ | ⟨_, h7, _⟩
  · rw [hnil] at h8; simp at h8
  · rw [hnil] at h7; simp at h7

/-- what the stream theorem needs from one encoded frame -/
def StreamFrame (legacy : Bool) (cat : Cat) (f : AnyFrame) (chv : PyVal) (d : Nat × AnyFrame)
    (bs : Bytes) : Prop :=
  Frame.marshal legacy cat f chv = .ok bs ∧ bs ≠ [] ∧
    ∀ rest, Frame.unmarshal cat (bs ++ rest) = .ok (bs.length, d.1, d.2)

/-- accepted method frame -/
theorem streamFrame_method (legacy : Bool) (cat : Cat) (hwf : Spec.catWF cat = true)
    (spec : MethodSpec) (hs : spec ∈ cat.methods) (vals : List PyVal)
    (ha : Spec.Accepted legacy spec vals) (ch : Nat) (hc : ch < 65536) :
    ∃ bs, StreamFrame legacy cat (.method spec vals) (.int ch)
      (ch, .method spec (Spec.normArgs spec vals)) bs := by
  obtain ⟨bs, hm, hu⟩ := C01_generic cat hwf spec hs legacy vals ha ch hc []
  refine ⟨bs, hm, ?_, ?_⟩
  · have := unmarshal_ok_ne_nil cat _ _ _ _ hu
    simpa using this
  · intro rest
    obtain ⟨bs', hm', hu'⟩ := C01_generic cat hwf spec hs legacy vals ha ch hc rest
    rw [hm] at hm'
    cases hm'
    exact hu'

/-- body frame, empty or not -/
theorem streamFrame_body (legacy : Bool) (cat : Cat) (b : Bytes) (hl : b.length < 2 ^ 32)
    (ch : Nat) (hc : ch < 65536) :
    ∃ bs, StreamFrame legacy cat (.body (.bytes b)) (.int ch) (ch, .body (.bytes b)) bs := by
  obtain ⟨bs, hm, hlen, _, _⟩ := body_roundtrip_any legacy cat b hl ch hc []
  refine ⟨bs, hm, ?_, ?_⟩
  · intro hnil; rw [hnil] at hlen; simp at hlen
  · intro rest
    obtain ⟨bs', hm', _, _, hu'⟩ := body_roundtrip_any legacy cat b hl ch hc rest
    rw [hm] at hm'
    cases hm'
    exact hu'

/-- heartbeat -/
theorem streamFrame_heartbeat (legacy : Bool) (cat : Cat) (chv : PyVal) :
    ∃ bs, StreamFrame legacy cat .heartbeat chv (0, .heartbeat) bs := by
  refine ⟨[8, 0, 0, 0, 0, 0, 0, 0xCE], (heartbeat_roundtrip legacy cat chv []).1, by simp, ?_⟩
  intro rest
  exact (heartbeat_roundtrip legacy cat chv rest).2

/-- the stream theorem over an abstract item type: if every item has an encoding that decodes to
`dec i` whatever follows it, the concatenation of the encodings decodes to `items.map dec` -/
theorem stream_of_items {ι : Type} (legacy : Bool) (cat : Cat) (fr : ι → AnyFrame × PyVal)
    (dec : ι → Nat × AnyFrame) (items : List ι)
    (h : ∀ i ∈ items, ∃ bs, StreamFrame legacy cat (fr i).1 (fr i).2 (dec i) bs) :
    ∃ bss : List Bytes, bss.length = items.length ∧
      (∀ p ∈ items.zip bss, Frame.marshal legacy cat (fr p.1).1 (fr p.1).2 = .ok p.2) ∧
      ∀ fuel, items.length < fuel →
        Spec.decodeAll cat fuel (bss.flatMap id) = some (items.map dec) := by
  induction items with
  | nil =>
    refine ⟨[], rfl, by simp, ?_⟩
    intro fuel _
    cases fuel <;> simp [Spec.decodeAll]
  | cons i is ih =>
    obtain ⟨bs, hm, hne, hu⟩ := h i (by simp)
    obtain ⟨bss, hlen, hzip, hdec⟩ := ih (fun j hj => h j (by simp [hj]))
    refine ⟨bs :: bss, by simp [hlen], ?_, ?_⟩
    · intro p hp
      rw [List.zip_cons_cons, List.mem_cons] at hp
      rcases hp with rfl | hp
      · exact hm
      · exact hzip p hp
    · intro fuel hf
      cases fuel with
      | zero => simp at hf
      | succ fuel =>
        have hr := hdec fuel (by simpa using hf)
        simp only [List.flatMap_cons, List.map_cons, id]
        exact decodeAll_step cat bs _ (dec i).1 (dec i).2 fuel _ hne (hu _) hr

end Pamqp.Proofs
