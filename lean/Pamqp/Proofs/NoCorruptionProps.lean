import Pamqp.Spec.Defs
import Pamqp.Proofs.NoCorruption
import Pamqp.Proofs.PropsLoop
/-! # C10 for message properties: whatever `ContentHeader.marshal` accepts lies in the C02 domain

As in `NoCorruption`, stated for any `D DL DE` satisfying the clauses of `Documented`, and with
`coerce` / `DocArg D` for the downstream `coerceArg` / `DocumentedArg`. -/
namespace Pamqp.Proofs.NoCorruption
open Pamqp Pamqp.Props Pamqp.Proofs
set_option linter.unusedSimpArgs false
set_option linter.unusedVariables false

/-- the slots with their values coerced (Python `==` between bool and int) -/
def coerceProps (l : List (PropSpec × PyVal)) : List (PropSpec × PyVal) :=
  l.map (fun p => (p.1, coerce p.1.ty p.2))

/-- coercion never turns a set slot into an unset one or back -/
theorem isSet_coerce (ty : WireTy) (v : PyVal) : Base.isSet (coerce ty v) = Base.isSet v := by
  cases v with
  | bool b => rcases coerce_bool_int ty b with h | h <;> rw [h] <;> rfl
  | int i => rcases coerce_int ty i with h | ⟨_, h⟩ | ⟨_, h⟩ <;> rw [h] <;> rfl
  | _ => rw [coerce_other _ _ (by intro b; simp) (by intro i; simp)]

/-- the first pass of `BasicProperties.marshal` cannot tell a value from its coerced form -/
theorem propParts_coerce (legacy : Bool) (l : List (PropSpec × PyVal)) :
    Base.propParts legacy (coerceProps l) = Base.propParts legacy l := by
  induction l with
  | nil => rfl
  | cons a l ih =>
    obtain ⟨p, v⟩ := a
    have ih' : Base.propParts legacy (List.map (fun p => (p.1, coerce p.1.ty p.2)) l) =
        Base.propParts legacy l := ih
    simp only [coerceProps, List.map_cons, Base.propParts, isSet_coerce, byType_coerce, ih']

/-- every set slot was handed to the encoder of its type, which succeeded -/
theorem propParts_elems_ok (legacy : Bool) (l : List (PropSpec × PyVal)) :
    ∀ r, Base.propParts legacy l = .ok r →
      ∀ pv ∈ l, Base.isSet pv.2 = true → ∃ e, Encode.byType legacy pv.2 pv.1.ty = .ok e := by
  induction l with
  | nil => intro _ _ pv hpv; cases hpv
  | cons a l ih =>
    obtain ⟨p, v⟩ := a
    intro r h pv hpv hset
    cases hs : Base.isSet v with
    | false =>
      simp only [Base.propParts, hs, Bool.false_eq_true, if_false] at h
      rcases List.mem_cons.mp hpv with rfl | hpv'
      · rw [hs] at hset; cases hset
      · exact ih r h pv hpv' hset
    | true =>
      simp only [Base.propParts, hs, if_true] at h
      obtain ⟨e, he, h1⟩ := bind_ok h
      obtain ⟨r', hr', _⟩ := bind_ok h1
      rcases List.mem_cons.mp hpv with rfl | hpv'
      · exact ⟨e, he⟩
      · exact ih r' hr' pv hpv' hset

section
variable {D : PyVal → Prop} {DL : List PyVal → Prop} {DE : List (Str × PyVal) → Prop}

/-- the coerced property values the encoder accepted satisfy C02's domain predicate -/
theorem propsOK_of_elems (dc : DocClauses D DL DE) (legacy : Bool) (l : List (PropSpec × PyVal))
    (hty : ∀ pv ∈ l, pv.1.ty ≠ .bit)
    (hel : ∀ pv ∈ l, Base.isSet pv.2 = true → ∃ e, Encode.byType legacy pv.2 pv.1.ty = .ok e)
    (hd : ∀ pv ∈ l, ¬ DocArg D pv.1.ty pv.2 ∧ KeysDistinct pv.2) :
    Spec.propsOK legacy (coerceProps l) := by
  induction l with
  | nil => simp [coerceProps, Spec.propsOK]
  | cons a l ih =>
    obtain ⟨p, v⟩ := a
    have hrest := ih (fun q hq => hty q (List.mem_cons_of_mem _ hq))
      (fun q hq => hel q (List.mem_cons_of_mem _ hq)) (fun q hq => hd q (List.mem_cons_of_mem _ hq))
    refine ⟨?_, hrest⟩
    cases hs : Base.isSet v with
    | false => left; simp only [isSet_coerce, hs]
    | true =>
      right
      have hb : p.ty ≠ .bit := hty (p, v) List.mem_cons_self
      obtain ⟨e, he⟩ := hel (p, v) List.mem_cons_self hs
      obtain ⟨hd1, hd2⟩ := hd (p, v) List.mem_cons_self
      have hE : ElemOK legacy (p.ty, v) := by
        simp only [ElemOK, hb, if_false]; exact ⟨e, he⟩
      exact argOK_of_elem dc legacy p.ty v hE hd1 hd2

end

/-- what C02 expects for the coerced values, per slot -/
theorem expectedProps_coerce (l : List (PropSpec × PyVal)) :
    Spec.expectedProps (coerceProps l) =
      l.map (fun p => if Base.isSet p.2 then Spec.normArg p.1.ty (coerce p.1.ty p.2)
        else Base.litVal p.1.default) := by
  induction l with
  | nil => rfl
  | cons a l ih =>
    obtain ⟨p, v⟩ := a
    have ih' : Spec.expectedProps (List.map (fun p => (p.1, coerce p.1.ty p.2)) l) = _ := ih
    simp only [coerceProps, List.map_cons, Spec.expectedProps, isSet_coerce, ih']

/-- zipping the slots with the coerced values is coercing the zipped list -/
theorem zip_coerce (props : List PropSpec) (vals : List PyVal) :
    props.zip ((props.zip vals).map (fun p => coerce p.1.ty p.2)) = coerceProps (props.zip vals) := by
  induction props generalizing vals with
  | nil => simp [coerceProps]
  | cons p ps ih =>
    cases vals with
    | nil => simp [coerceProps]
    | cons v vs =>
      have := ih vs
      simp only [coerceProps, List.zip_cons_cons, List.map_cons, List.cons.injEq, true_and] at this ⊢
      exact this

theorem propsMarshal_coerce (legacy : Bool) (props : List PropSpec) (vals : List PyVal) :
    Base.propsMarshal legacy props ((props.zip vals).map (fun p => coerce p.1.ty p.2)) =
      Base.propsMarshal legacy props vals := by
  simp only [Base.propsMarshal, zip_coerce, propParts_coerce]

/-- `ContentHeader.marshal()` looks at the body size as an int and at the marshalled properties -/
theorem headerPayload_congr (legacy : Bool) (cat : Cat) (size size' : PyVal) (vals vals' : List PyVal)
    (h1 : size'.asInt? = size.asInt?)
    (h2 : Base.propsMarshal legacy cat.props vals' = Base.propsMarshal legacy cat.props vals) :
    Frame.headerPayload legacy cat size' vals' = Frame.headerPayload legacy cat size vals := by
  unfold Frame.headerPayload
  rw [h1, h2]

section
variable {D : PyVal → Prop} {DL : List PyVal → Prop} {DE : List (Str × PyVal) → Prop}

/-- C10_props, with `coerce` / `DocArg D` for the downstream `coerceArg` / `DocumentedArg` and the
body of `expectedProp` written out -/
theorem props_of_ok (dc : DocClauses D DL DE) (cat : Cat) (hwf : Spec.flagsWF cat.props = true)
    (hcls : cat.basicClassId < 65536)
    (legacy : Bool) (vals : List PyVal) (hl : vals.length = cat.props.length)
    (cls weight size ch : PyVal) (bs : Bytes)
    (h : Frame.marshal legacy cat (.header cls weight size vals) ch = .ok bs)
    (hd : ∀ p ∈ cat.props.zip vals, ¬ DocArg D p.1.ty p.2 ∧ KeysDistinct p.2) :
    ∃ (c n : Nat), ch.asInt? = some (c : Int) ∧ size.asInt? = some (n : Int) ∧
      Frame.unmarshal cat bs = .ok (bs.length, c, .header (.int cat.basicClassId) (.int 0) (.int n)
        ((cat.props.zip vals).map (fun p =>
          if Base.isSet p.2 then Spec.normArg p.1.ty (coerce p.1.ty p.2)
          else Base.litVal p.1.default))) := by
  -- what the encoder did
  simp only [Frame.marshal] at h
  obtain ⟨payload, hpay, henv⟩ := bind_ok h
  obtain ⟨c, hch, hc, hpl32, rfl⟩ := envelope_of_ok 2 ch payload bs henv
  have hpay0 := hpay
  unfold Frame.headerPayload at hpay
  obtain ⟨clsb, _, h1⟩ := bind_ok hpay
  -- the body size
  cases hsize : size.asInt? with
  | none => simp [hsize, bind, Except.bind] at h1
  | some i =>
    simp only [hsize] at h1
    obtain ⟨szb, hsz, h2⟩ := bind_ok h1
    obtain ⟨pp, hpm, _⟩ := bind_ok h2
    obtain ⟨i0, i1, _⟩ := packInt_ok hsz
    have hi : ((i.toNat : Nat) : Int) = i := by omega
    have hilt : i.toNat < 2 ^ 64 := by omega
    -- the property values
    simp only [Base.propsMarshal] at hpm
    obtain ⟨fp, hparts, _⟩ := bind_ok hpm
    obtain ⟨hall, _⟩ := flagsWF_elim cat.props hwf
    have hty : ∀ pv ∈ cat.props.zip vals, pv.1.ty ≠ .bit :=
      fun pv hm => (hall pv.1 (List.of_mem_zip (a := pv.1) (b := pv.2) hm).1).2
    have hel := propParts_elems_ok legacy _ fp hparts
    have hok : Spec.propsOK legacy (coerceProps (cat.props.zip vals)) :=
      propsOK_of_elems dc legacy _ hty hel hd
    -- the round trip of the coerced values produces the same payload
    let vals' := (cat.props.zip vals).map (fun p => coerce p.1.ty p.2)
    have hl' : vals'.length = cat.props.length := by
      simp only [vals', List.length_map, List.length_zip, hl, Nat.min_self]
    have hzip : cat.props.zip vals' = coerceProps (cat.props.zip vals) := zip_coerce _ _
    obtain ⟨payload', hpay', hplen, hun⟩ :=
      header_payload_roundtrip cat hwf hcls legacy vals' hl' (by rw [hzip]; exact hok) i.toNat hilt
    have hsame : Frame.headerPayload legacy cat (.int (i.toNat : Int)) vals' =
        Frame.headerPayload legacy cat size vals := by
      apply headerPayload_congr
      · rw [hsize]; simp only [PyVal.asInt?, hi]
      · exact propsMarshal_coerce legacy cat.props vals
    rw [hsame, hpay0] at hpay'
    cases hpay'
    have hne : payload ≠ [] := by
      intro e; rw [e] at hplen; simp at hplen
    refine ⟨c, i.toNat, hch, by rw [hi], ?_⟩
    have hu := unmarshal_envelope cat 2 (Or.inr (Or.inl rfl)) c hc payload hne hpl32 []
    rw [List.append_nil] at hu
    rw [hu, envBytes_length, hun, hzip, expectedProps_coerce]
    simp [Frame.mapCaught, bind, Except.bind, pure, Except.pure]

end

end Pamqp.Proofs.NoCorruption
