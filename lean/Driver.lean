import Pamqp.Model.Frame
import Pamqp.Model.Api
import Pamqp.Spec.Wire
import Pamqp.Generated.Catalogue
/-!
# Line-protocol driver (Tie B). One operation per input line, one answer per output line.
Values travel in a small S-expression syntax that is *not* AMQP (see tools/proto.py).
`partial` is used only here (I/O loop, tokenizer, parser).
-/
open Pamqp

/-! ## tokens -/

inductive Tok where
  | lp | rp | atom (s : List Char)
  deriving Inhabited

def tokenize (cs : List Char) : Array Tok := Id.run do
  let mut out : Array Tok := #[]
  let mut cur : List Char := []
  for c in cs do
    if c == '(' || c == ')' || c == ' ' || c == '\n' || c == '\r' || c == '\t' then
      if !cur.isEmpty then
        out := out.push (.atom cur.reverse)
        cur := []
      if c == '(' then out := out.push .lp
      else if c == ')' then out := out.push .rp
    else cur := c :: cur
  if !cur.isEmpty then out := out.push (.atom cur.reverse)
  return out

def natOfChars (cs : List Char) : Option Nat :=
  if cs.isEmpty then none else
  cs.foldl (fun acc c => match acc with
    | none => none
    | some n => if c.isDigit then some (n * 10 + (c.toNat - 48)) else none) (some 0)

def intOfChars : List Char → Option Int
  | '-' :: cs => (natOfChars cs).map (fun n => -(n : Int))
  | cs => (natOfChars cs).map (fun n => (n : Int))

def hexVal (c : Char) : Option Nat :=
  if c.isDigit then some (c.toNat - 48)
  else if 'a' ≤ c && c ≤ 'f' then some (c.toNat - 87)
  else if 'A' ≤ c && c ≤ 'F' then some (c.toNat - 55)
  else none

def hexNat (cs : List Char) : Option Nat :=
  if cs.isEmpty then none else
  cs.foldl (fun acc c => match acc, hexVal c with
    | some n, some d => some (n * 16 + d)
    | _, _ => none) (some 0)

def bytesOfHex : List Char → Option Bytes
  | ['-'] => some []
  | cs =>
    let rec go : List Char → Array UInt8 → Option (Array UInt8)
      | [], acc => some acc
      | a :: b :: r, acc => match hexVal a, hexVal b with
        | some x, some y => go r (acc.push (UInt8.ofNat (x * 16 + y)))
        | _, _ => none
      | _, _ => none
    (go cs #[]).map (·.toList)

def hexDigit (n : Nat) : Char := if n < 10 then Char.ofNat (48 + n) else Char.ofNat (87 + n)

def hexOfBytes (bs : Bytes) : String :=
  if bs.isEmpty then "-" else
  String.ofList (bs.foldr (fun b acc => hexDigit (b.toNat / 16) :: hexDigit (b.toNat % 16) :: acc) [])

def hexOfNat (n : Nat) : String := String.ofList (Nat.toDigits 16 n)

/-! ## parser: tokens -> values -/

abbrev P := StateT Nat (Except String)

structure Ctx where
  toks : Array Tok

def peek (c : Ctx) : P (Option Tok) := do
  let i ← get
  pure (if i < c.toks.size then some c.toks[i]! else none)

def next (c : Ctx) : P Tok := do
  let i ← get
  if i < c.toks.size then do set (i + 1); pure c.toks[i]!
  else throw "unexpected end of line"

def atom (c : Ctx) : P (List Char) := do
  match ← next c with
  | .atom s => pure s
  | _ => throw "atom expected"

def expectRp (c : Ctx) : P Unit := do
  match ← next c with
  | .rp => pure ()
  | _ => throw "')' expected"

def pNat (c : Ctx) : P Nat := do
  match natOfChars (← atom c) with
  | some n => pure n
  | none => throw "nat expected"

def pInt (c : Ctx) : P Int := do
  match intOfChars (← atom c) with
  | some n => pure n
  | none => throw "int expected"

def pHexNat (c : Ctx) : P Nat := do
  match hexNat (← atom c) with
  | some n => pure n
  | none => throw "hex expected"

def pBytes (c : Ctx) : P Bytes := do
  match bytesOfHex (← atom c) with
  | some n => pure n
  | none => throw "hex bytes expected"

/-- atoms until ')' as naturals -/
partial def pNatsUntilRp (c : Ctx) (acc : Array Nat) : P (List Nat) := do
  match ← next c with
  | .rp => pure acc.toList
  | .atom s => match natOfChars s with
    | some n => pNatsUntilRp c (acc.push n)
    | none => throw "code point expected"
  | .lp => throw "unexpected '('"

mutual
partial def pVal (c : Ctx) : P PyVal := do
  match ← next c with
  | .atom ['N'] => pure .none
  | .atom ['O'] => pure .other
  | .atom _ => throw "value expected"
  | .rp => throw "value expected, got ')'"
  | .lp =>
    let tag ← atom c
    match String.ofList tag with
    | "b" => let n ← pNat c; expectRp c; pure (.bool (n != 0))
    | "i" => let n ← pInt c; expectRp c; pure (.int n)
    | "f" => let n ← pHexNat c; expectRp c; pure (.float n)
    | "d" => let s ← pNat c; let co ← pNat c; let e ← pInt c; expectRp c; pure (.decimal (s != 0) co e)
    | "ds" => let n ← pNat c; expectRp c; pure (.decimalSpecial (n != 0))
    | "s" => let cps ← pNatsUntilRp c #[]; pure (.str cps)
    | "y" => let b ← pBytes c; expectRp c; pure (.bytes b)
    | "a" => let b ← pBytes c; expectRp c; pure (.bytearray b)
    | "t" =>
      let m ← pInt c
      let tz ← atom c
      expectRp c
      match tz with
      | ['n'] => pure (.datetime m none)
      | cs => match intOfChars cs with
        | some o => pure (.datetime m (some o))
        | none => throw "tz expected"
    | "st" => let n ← pInt c; expectRp c; pure (.structTime n)
    | "l" => let vs ← pValsUntilRp c #[]; pure (.list vs)
    | "m" => let kvs ← pPairsUntilRp c #[]; pure (.dict kvs)
    | _ => throw "unknown value tag"
partial def pValsUntilRp (c : Ctx) (acc : Array PyVal) : P (List PyVal) := do
  match ← peek c with
  | some .rp => let _ ← next c; pure acc.toList
  | some _ => let v ← pVal c; pValsUntilRp c (acc.push v)
  | none => throw "unexpected end in list"
partial def pPairsUntilRp (c : Ctx) (acc : Array (Str × PyVal)) : P (List (Str × PyVal)) := do
  match ← peek c with
  | some .rp => let _ ← next c; pure acc.toList
  | some _ =>
    let k ← pVal c
    let v ← pVal c
    match k with
    | .str s => pPairsUntilRp c (acc.push (s, v))
    | _ => throw "dict key must be (s ...)"
  | none => throw "unexpected end in dict"
end

/-- values until the end of the line -/
partial def pValsToEnd (c : Ctx) (acc : Array PyVal) : P (List PyVal) := do
  match ← peek c with
  | none => pure acc.toList
  | some _ => let v ← pVal c; pValsToEnd c (acc.push v)

/-! ## printer -/

def joinSp (xs : List String) : String := " ".intercalate xs

partial def showVal : PyVal → String
  | .none => "N"
  | .other => "O"
  | .bool b => if b then "(b 1)" else "(b 0)"
  | .int i => s!"(i {i})"
  | .float n => s!"(f {hexOfNat n})"
  | .decimal s c e => s!"(d {if s then 1 else 0} {c} {e})"
  | .decimalSpecial k => s!"(ds {if k then 1 else 0})"
  | .str cps => "(s" ++ String.join (cps.map (fun c => s!" {c}")) ++ ")"
  | .bytes b => s!"(y {hexOfBytes b})"
  | .bytearray b => s!"(a {hexOfBytes b})"
  | .datetime m none => s!"(t {m} n)"
  | .datetime m (some o) => s!"(t {m} {o})"
  | .structTime s => s!"(st {s})"
  | .list vs => "(l" ++ String.join (vs.map (fun v => " " ++ showVal v)) ++ ")"
  | .dict kvs => "(m" ++ String.join (kvs.map (fun (k, v) => " " ++ showVal (.str k) ++ " " ++ showVal v)) ++ ")"

def showErr : PyErr → String
  | .typeError => "TypeError" | .valueError => "ValueError"
  | .unicodeDecodeError => "UnicodeDecodeError" | .unicodeEncodeError => "UnicodeEncodeError"
  | .structError => "struct.error" | .overflowError => "OverflowError" | .keyError => "KeyError"
  | .unmarshaling => "UnmarshalingException" | .otherError => "OtherError" | .outOfFuel => "OutOfFuel"

def showFrame : AnyFrame → String
  | .protocolHeader a b c => s!"(P {showVal a} {showVal b} {showVal c})"
  | .method spec vals => s!"(M {spec.key}" ++ String.join (vals.map (fun v => " " ++ showVal v)) ++ ")"
  | .header cls w sz props =>
    s!"(H {showVal cls} {showVal w} {showVal sz}" ++ String.join (props.map (fun v => " " ++ showVal v)) ++ ")"
  | .body v => s!"(B {showVal v})"
  | .heartbeat => "HB"
  | .notAFrame => "X"

def rBytes (r : R Bytes) : String :=
  match r with
  | .ok b => "ok " ++ hexOfBytes b
  | .error e => "err " ++ showErr e

def rDec (r : R (Nat × PyVal)) : String :=
  match r with
  | .ok (n, v) => s!"ok {n} {showVal v}"
  | .error e => "err " ++ showErr e

def rVals (r : R (List PyVal)) : String :=
  match r with
  | .ok vs => "ok" ++ String.join (vs.map (fun v => " " ++ showVal v))
  | .error e => "err " ++ showErr e

def rUnit (r : R Unit) : String :=
  match r with
  | .ok _ => "ok"
  | .error e => "err " ++ showErr e

/-! ## operations -/

def cat : Cat := Generated.cat

def findSpec (key : Int) : Option MethodSpec := cat.methods.find? (·.key == key)

def showTy : WireTy → String
  | .bit => "bit" | .octet => "octet" | .short => "short" | .long => "long" | .longlong => "longlong"
  | .shortstr => "shortstr" | .longstr => "longstr" | .table => "table" | .timestamp => "timestamp"
  | .unknown => "unknown"

def wireTyOf (s : String) : WireTy :=
  match s with
  | "bit" => .bit | "octet" => .octet | "short" => .short | "long" => .long
  | "longlong" => .longlong | "shortstr" => .shortstr | "longstr" => .longstr
  | "table" => .table | "timestamp" => .timestamp | _ => .unknown

def pFrame (c : Ctx) : P AnyFrame := do
  match ← next c with
  | .atom ['H', 'B'] => pure .heartbeat
  | .atom ['X'] => pure .notAFrame
  | .lp =>
    let tag ← atom c
    match String.ofList tag with
    | "M" =>
      let key ← pInt c
      let vals ← pValsUntilRp c #[]
      match findSpec key with
      | some spec => pure (.method spec vals)
      | none => throw "unknown method key"
    | "H" =>
      let cls ← pVal c
      let w ← pVal c
      let sz ← pVal c
      let props ← pValsUntilRp c #[]
      pure (.header cls w sz props)
    | "B" => let v ← pVal c; expectRp c; pure (.body v)
    | "P" => let a ← pVal c; let b ← pVal c; let d ← pVal c; expectRp c; pure (.protocolHeader a b d)
    | _ => throw "unknown frame tag"
  | _ => throw "frame expected"

def encPrim (name : String) (v : PyVal) : Option (R Bytes) :=
  match name with
  | "boolean" => some (Encode.boolean v)
  | "byte_array" => some (Encode.byteArray v)
  | "decimal" => some (Encode.decimal v)
  | "double" => some (Encode.double v)
  | "floating_point" => some (Encode.floatingPoint v)
  | "long_int" => some (Encode.longInt v)
  | "long_uint" => some (Encode.longUint v)
  | "long_long_int" => some (Encode.longLongInt v)
  | "octet" => some (Encode.octet v)
  | "short_int" => some (Encode.shortInt v)
  | "short_uint" => some (Encode.shortUint v)
  | "short_string" => some (Encode.shortString v)
  | "long_string" => some (Encode.longString v)
  | "timestamp" => some (Encode.timestamp v)
  | _ => none

def decPrim (name : String) (b : Bytes) : Option (R (Nat × PyVal)) :=
  match name with
  | "boolean" => some (Decode.boolean b)
  | "byte_array" => some (Decode.byteArray b)
  | "decimal" => some (Decode.decimal b)
  | "double" => some (Decode.double b)
  | "floating_point" => some (Decode.floatingPoint b)
  | "long_int" => some (Decode.longInt b)
  | "long_uint" => some (Decode.longUint b)
  | "long_long_int" => some (Decode.longLongInt b)
  | "long_str" => some (Decode.longStr b)
  | "octet" => some (Decode.octet b)
  | "short_int" => some (Decode.shortInt b)
  | "short_uint" => some (Decode.shortUint b)
  | "short_short_int" => some (Decode.shortShortInt b)
  | "short_short_uint" => some (Decode.shortShortUint b)
  | "short_str" => some (Decode.shortStr b)
  | "timestamp" => some (Decode.timestamp b)
  | "void" => some (Decode.void b)
  | _ => none

def rFrame (r : R (Nat × Nat × AnyFrame)) : String :=
  match r with
  | .ok (n, ch, f) => s!"ok {n} {ch} {showFrame f}"
  | .error e => "err " ++ showErr e

/-- one line -> (new api state, answer) -/
def step (st : Api.State) (line : String) : Api.State × String :=
  let c : Ctx := { toks := tokenize line.toList }
  let run : P (Api.State × String) := do
    let op := String.ofList (← atom c)
    match op with
    | "enc.value" => let l ← pNat c; let v ← pVal c; pure (st, rBytes (Encode.tableValue (l != 0) v))
    | "enc.table" => let l ← pNat c; let v ← pVal c; pure (st, rBytes (Encode.fieldTable (l != 0) v))
    | "enc.array" => let l ← pNat c; let v ← pVal c; pure (st, rBytes (Encode.fieldArray (l != 0) v))
    | "enc.tint" => let l ← pNat c; let i ← pInt c; pure (st, rBytes (Encode.tableInteger (l != 0) i))
    | "enc.prim" =>
      let name := String.ofList (← atom c)
      let v ← pVal c
      match encPrim name v with
      | some r => pure (st, rBytes r)
      | none => throw "unknown primitive"
    | "enc.bytype" =>
      let l ← pNat c
      let ty := String.ofList (← atom c)
      let v ← pVal c
      pure (st, rBytes (Encode.byType (l != 0) v (wireTyOf ty)))
    | "enc.bit" =>
      let v ← pVal c; let b ← pNat c; let p ← pNat c
      pure (st, match Encode.bit v b p with | .ok n => s!"ok {n}" | .error e => "err " ++ showErr e)
    | "dec.value" => let b ← pBytes c; pure (st, rDec (Decode.embeddedValue b))
    | "dec.table" => let b ← pBytes c; pure (st, rDec (Decode.fieldTableTop b))
    | "dec.array" => let b ← pBytes c; pure (st, rDec (Decode.fieldArrayTop b))
    | "dec.prim" =>
      let name := String.ofList (← atom c)
      let b ← pBytes c
      match decPrim name b with
      | some r => pure (st, rDec r)
      | none => throw "unknown primitive"
    | "dec.bytype" =>
      let ty := String.ofList (← atom c)
      let off ← pNat c
      let b ← pBytes c
      pure (st, rDec (Decode.byType b (wireTyOf ty) off))
    | "args.marshal" =>
      let l ← pNat c; let key ← pInt c; let vals ← pValsToEnd c #[]
      match findSpec key with
      | some spec => pure (st, rBytes (Base.frameMarshal (l != 0) spec vals))
      | none => throw "unknown method key"
    | "args.unmarshal" =>
      let key ← pInt c; let b ← pBytes c
      match findSpec key with
      | some spec => pure (st, rVals (Base.frameUnmarshal spec b))
      | none => throw "unknown method key"
    | "validate" =>
      let key ← pInt c; let vals ← pValsToEnd c #[]
      match findSpec key with
      | some spec => pure (st, rUnit (Base.validate spec.slots vals spec.rules))
      | none => throw "unknown method key"
    | "validate.props" =>
      let vals ← pValsToEnd c #[]
      pure (st, rUnit (Base.validate (cat.props.map (·.name)) vals Generated.propsRules))
    | "props.marshal" =>
      let l ← pNat c; let vals ← pValsToEnd c #[]
      pure (st, rBytes (Base.propsMarshal (l != 0) cat.props vals))
    | "props.unmarshal" =>
      let fl ← pInt c; let b ← pBytes c
      pure (st, rVals (Base.propsUnmarshal fl b (cat.props.zip (Frame.propDefaults cat))))
    | "flags" =>
      let b ← pBytes c
      pure (st, match Frame.getFlags b 0 0 0 with
        | .ok (n, f) => s!"ok {n} {f}" | .error e => "err " ++ showErr e)
    | "frame.marshal" =>
      let l ← pNat c; let ch ← pVal c; let f ← pFrame c
      pure (st, rBytes (Frame.marshal (l != 0) cat f ch))
    | "frame.unmarshal" => let b ← pBytes c; pure (st, rFrame (Frame.unmarshal cat b))
    | "frame.parts" =>
      let b ← pBytes c
      pure (st, match Frame.frameParts b with
        | (t, ch, some sz) => s!"ok {t} {ch} {sz}"
        | (t, ch, none) => s!"ok {t} {ch} None")
    | "spec.encvalue" =>
      let l ← pNat c; let v ← pVal c
      pure (st, match Spec.encValue (l != 0) v with | some b => "ok " ++ hexOfBytes b | none => "none")
    | "spec.parsevalue" =>
      let b ← pBytes c
      pure (st, match Spec.parseValue b with
        | some (fv, rest) => (match fv.value with
          | some v => s!"ok {b.length - rest.length} {showVal v}"
          | none => "refused")
        | none => "none")
    | "spec.reencode" =>
      let b ← pBytes c
      pure (st, match Spec.parseValue b with
        | some (fv, _) => "ok " ++ hexOfBytes fv.wire
        | none => "none")
    | "spec.args" =>
      let l ← pNat c; let key ← pInt c; let vals ← pValsToEnd c #[]
      match findSpec key with
      | some spec => pure (st, match Spec.argsWire (l != 0) (vals.length + 1) (spec.types.zip vals) with
          | some b => "ok " ++ hexOfBytes b | none => "none")
      | none => throw "unknown method key"
    | "utf8.enc" =>
      let v ← pVal c
      match v with
      | .str s => pure (st, match utf8Encode s with | some b => "ok " ++ hexOfBytes b | none => "err UnicodeEncodeError")
      | _ => throw "str expected"
    | "utf8.dec" =>
      let b ← pBytes c
      pure (st, match utf8Decode b with | some s => "ok " ++ showVal (.str s) | none => "err UnicodeDecodeError")
    | "f32.narrow" =>
      let n ← pHexNat c
      pure (st, match f32Narrow n with | some b => "ok " ++ hexOfNat b | none => "err OverflowError")
    | "f32.widen" => let n ← pHexNat c; pure (st, "ok " ++ hexOfNat (f32Widen n))
    | "regex" =>
      let v ← pVal c
      match v with
      | .str s => pure (st, if s.all Base.allowedChar then "ok 1" else "ok 0")
      | _ => throw "str expected"
    | "strle" =>
      let a ← pVal c; let b ← pVal c
      match a, b with
      | .str x, .str y => pure (st, if strLe x y then "ok 1" else "ok 0")
      | _, _ => throw "str expected"
    | "api.toggle" =>
      let arg ← atom c
      let op : Api.Op := match arg with
        | ['d'] => .toggle none
        | ['1'] => .toggle (some true)
        | _ => .toggle (some false)
      let (st', _) := Api.step cat st op
      pure (st', "ok")
    | "api.encvalue" =>
      let v ← pVal c
      let (st', out) := Api.step cat st (.encodeValue v)
      pure (st', match out with | .bytes r => rBytes r | _ => "bad-out")
    | "api.marshal" =>
      let ch ← pVal c; let f ← pFrame c
      let (st', out) := Api.step cat st (.marshal f ch)
      pure (st', match out with | .bytes r => rBytes r | _ => "bad-out")
    | "api.unmarshal" =>
      let b ← pBytes c
      let (st', out) := Api.step cat st (.unmarshal b)
      pure (st', match out with | .frame r => rFrame r | _ => "bad-out")
    | "api.construct" =>
      let key ← pInt c
      let (st', out) := Api.step cat st (.construct key)
      pure (st', match out with | .vals r => rVals r | _ => "bad-out")
    | "api.constructwith" =>
      let key ← pInt c; let vals ← pValsToEnd c #[]
      match findSpec key with
      | some spec => pure (st, rVals (Api.constructWith spec vals))
      | none => throw "unknown method key"
    | "api.constructprops" =>
      let vals ← pValsToEnd c #[]
      pure (st, rVals (Api.constructProps cat Generated.propsRules vals))
    | "map.iter" =>
      -- `list(obj)`, `len(obj)`: key 0 = Basic.Properties
      let key ← pInt c; let vals ← pValsToEnd c #[]
      let names? := if key == 0 then some (cat.props.map (·.name)) else (findSpec key).map (·.slots)
      match names? with
      | some names =>
        pure (st, "ok " ++ toString (Base.len names) ++
          String.join ((Base.iter names vals).map (fun p => " " ++ p.1 ++ " " ++ showVal p.2)))
      | none => throw "unknown method key"
    | "map.item" =>
      -- `name in obj`, `obj[name]`, `cls.amqp_type(name)`
      let key ← pInt c; let name ← atom c; let vals ← pValsToEnd c #[]
      let name := String.ofList name
      let names? := if key == 0 then some (cat.props.map (·.name), cat.props.map (fun p => (p.name, p.ty)))
        else (findSpec key).map (fun sp => (sp.slots, sp.slots.zip sp.types))
      match names? with
      | some (names, tys) =>
        pure (st, "ok " ++ (if Base.contains names name then "1" else "0") ++ " " ++
          (match Base.getItem names vals name with | some v => showVal v | none => "-") ++ " " ++
          (match Base.amqpType tys name with | some t => showTy t | none => "-"))
      | none => throw "unknown method key"
    | "ping" => pure (st, "pong")
    | _ => throw "unknown op"
  match (run.run 0) with
  | .ok ((st', s), _) => (st', s)
  | .error e => (st, "bad-op " ++ e)

partial def loop (hIn : IO.FS.Stream) (hOut : IO.FS.Stream) (st : Api.State) : IO Unit := do
  let line ← hIn.getLine
  if line.isEmpty then
    hOut.flush
    return ()
  if line == "flush\n" then
    hOut.putStrLn "flushed"
    hOut.flush
    loop hIn hOut st
  else
    let (st', out) := step st line
    hOut.putStrLn out
    loop hIn hOut st'

def main : IO Unit := do
  let hIn ← IO.getStdin
  let hOut ← IO.getStdout
  loop hIn hOut Api.init
