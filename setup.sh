#!/bin/sh
# Build the framework offline from files on disk: regenerate Tie-A data from /repo, build every
# proof module and the model driver. No network, no `require`.
set -e
cd "$(dirname "$0")"
export PYTHONDONTWRITEBYTECODE=1
python3 -B tools/gen_spec_lean.py --check
/venv/bin/python -B tools/translate.py
cd lean
lake build Pamqp driver
echo "setup complete"
